//! Small exact arbitrary-precision unsigned integer (little-endian `Vec<u32>` limbs) used as the
//! arithmetic oracle of C07.  Deliberately simple; `divrem` (Knuth D) is cross-checked against the
//! bit-serial `divrem_slow`, native u128 arithmetic and numext U512 by the `oracle-selftest`
//! sub-property of C07.
use std::cmp::Ordering;
use std::fmt;

#[derive(Clone, PartialEq, Eq, Hash, Default)]
pub struct BigNat(Vec<u32>);

impl fmt::Debug for BigNat {
    fn fmt(&self, f: &mut fmt::Formatter) -> fmt::Result {
        write!(f, "0x{}", self.to_hex())
    }
}

impl fmt::Display for BigNat {
    fn fmt(&self, f: &mut fmt::Formatter) -> fmt::Result {
        write!(f, "0x{}", self.to_hex())
    }
}

impl PartialOrd for BigNat {
    fn partial_cmp(&self, o: &Self) -> Option<Ordering> {
        Some(self.cmp(o))
    }
}

impl Ord for BigNat {
    fn cmp(&self, o: &Self) -> Ordering {
        if self.0.len() != o.0.len() {
            return self.0.len().cmp(&o.0.len());
        }
        for i in (0..self.0.len()).rev() {
            if self.0[i] != o.0[i] {
                return self.0[i].cmp(&o.0[i]);
            }
        }
        Ordering::Equal
    }
}

impl BigNat {
    fn norm(mut v: Vec<u32>) -> BigNat {
        while v.last() == Some(&0) {
            v.pop();
        }
        BigNat(v)
    }
    pub fn zero() -> BigNat {
        BigNat(vec![])
    }
    pub fn one() -> BigNat {
        BigNat(vec![1])
    }
    pub fn from_u64(x: u64) -> BigNat {
        Self::norm(vec![x as u32, (x >> 32) as u32])
    }
    pub fn from_u128(x: u128) -> BigNat {
        Self::norm(vec![x as u32, (x >> 32) as u32, (x >> 64) as u32, (x >> 96) as u32])
    }
    pub fn from_be_bytes(b: &[u8]) -> BigNat {
        let mut v = vec![0u32; b.len().div_ceil(4)];
        for (i, byte) in b.iter().rev().enumerate() {
            v[i / 4] |= (*byte as u32) << (8 * (i % 4));
        }
        Self::norm(v)
    }
    /// 2^n
    pub fn pow2(n: usize) -> BigNat {
        let mut v = vec![0u32; n / 32 + 1];
        v[n / 32] = 1 << (n % 32);
        BigNat(v)
    }
    pub fn is_zero(&self) -> bool {
        self.0.is_empty()
    }
    pub fn bits(&self) -> usize {
        match self.0.last() {
            None => 0,
            Some(t) => self.0.len() * 32 - t.leading_zeros() as usize,
        }
    }
    pub fn to_u64(&self) -> Option<u64> {
        if self.0.len() > 2 {
            return None;
        }
        Some(self.0.first().copied().unwrap_or(0) as u64 | (self.0.get(1).copied().unwrap_or(0) as u64) << 32)
    }
    pub fn to_u128(&self) -> Option<u128> {
        if self.0.len() > 4 {
            return None;
        }
        let mut x = 0u128;
        for (i, l) in self.0.iter().enumerate() {
            x |= (*l as u128) << (32 * i);
        }
        Some(x)
    }
    /// big-endian, exactly `n` bytes; None when the value does not fit
    pub fn to_be_bytes(&self, n: usize) -> Option<Vec<u8>> {
        if self.bits() > n * 8 {
            return None;
        }
        let mut out = vec![0u8; n];
        for i in 0..n {
            let limb = self.0.get(i / 4).copied().unwrap_or(0);
            out[n - 1 - i] = (limb >> (8 * (i % 4))) as u8;
        }
        Some(out)
    }
    pub fn to_hex(&self) -> String {
        if self.is_zero() {
            return "0".into();
        }
        let mut s = String::new();
        for (i, l) in self.0.iter().rev().enumerate() {
            if i == 0 {
                s.push_str(&format!("{l:x}"));
            } else {
                s.push_str(&format!("{l:08x}"));
            }
        }
        s
    }
    pub fn from_dec_str(s: &str) -> Option<BigNat> {
        if s.is_empty() {
            return None;
        }
        let mut r = BigNat::zero();
        for ch in s.chars() {
            let d = ch.to_digit(10)?;
            r = r.mul_u32(10).add(&BigNat::from_u64(d as u64));
        }
        Some(r)
    }
    pub fn add(&self, o: &BigNat) -> BigNat {
        let n = self.0.len().max(o.0.len());
        let mut v = Vec::with_capacity(n + 1);
        let mut carry = 0u64;
        for i in 0..n {
            let s = self.0.get(i).copied().unwrap_or(0) as u64 + o.0.get(i).copied().unwrap_or(0) as u64 + carry;
            v.push(s as u32);
            carry = s >> 32;
        }
        if carry > 0 {
            v.push(carry as u32);
        }
        Self::norm(v)
    }
    /// self - o, None when negative
    pub fn checked_sub(&self, o: &BigNat) -> Option<BigNat> {
        if self < o {
            return None;
        }
        let mut v = Vec::with_capacity(self.0.len());
        let mut borrow = 0i64;
        for i in 0..self.0.len() {
            let mut d = self.0[i] as i64 - o.0.get(i).copied().unwrap_or(0) as i64 - borrow;
            if d < 0 {
                d += 1 << 32;
                borrow = 1;
            } else {
                borrow = 0;
            }
            v.push(d as u32);
        }
        debug_assert_eq!(borrow, 0);
        Some(Self::norm(v))
    }
    pub fn sub(&self, o: &BigNat) -> BigNat {
        self.checked_sub(o).expect("BigNat::sub underflow")
    }
    pub fn mul_u32(&self, m: u32) -> BigNat {
        let mut v = Vec::with_capacity(self.0.len() + 1);
        let mut carry = 0u64;
        for l in &self.0 {
            let p = *l as u64 * m as u64 + carry;
            v.push(p as u32);
            carry = p >> 32;
        }
        if carry > 0 {
            v.push(carry as u32);
        }
        Self::norm(v)
    }
    pub fn mul(&self, o: &BigNat) -> BigNat {
        if self.is_zero() || o.is_zero() {
            return BigNat::zero();
        }
        let mut v = vec![0u32; self.0.len() + o.0.len()];
        for (i, a) in self.0.iter().enumerate() {
            let mut carry = 0u64;
            for (j, b) in o.0.iter().enumerate() {
                let cur = v[i + j] as u64 + *a as u64 * *b as u64 + carry;
                v[i + j] = cur as u32;
                carry = cur >> 32;
            }
            let mut k = i + o.0.len();
            while carry > 0 {
                let cur = v[k] as u64 + carry;
                v[k] = cur as u32;
                carry = cur >> 32;
                k += 1;
            }
        }
        Self::norm(v)
    }
    pub fn mul_u64(&self, m: u64) -> BigNat {
        self.mul(&BigNat::from_u64(m))
    }
    pub fn shl(&self, n: usize) -> BigNat {
        if self.is_zero() {
            return BigNat::zero();
        }
        let limbs = n / 32;
        let bits = n % 32;
        let mut v = vec![0u32; limbs];
        if bits == 0 {
            v.extend_from_slice(&self.0);
        } else {
            let mut carry = 0u32;
            for l in &self.0 {
                v.push((l << bits) | carry);
                carry = l >> (32 - bits);
            }
            if carry > 0 {
                v.push(carry);
            }
        }
        Self::norm(v)
    }
    pub fn shr(&self, n: usize) -> BigNat {
        let limbs = n / 32;
        let bits = n % 32;
        if limbs >= self.0.len() {
            return BigNat::zero();
        }
        let src = &self.0[limbs..];
        let mut v = Vec::with_capacity(src.len());
        for i in 0..src.len() {
            let lo = src[i] >> bits;
            let hi = if bits > 0 && i + 1 < src.len() {
                src[i + 1] << (32 - bits)
            } else {
                0
            };
            v.push(lo | hi);
        }
        Self::norm(v)
    }
    pub fn bit(&self, i: usize) -> bool {
        self.0.get(i / 32).map(|l| (l >> (i % 32)) & 1 == 1).unwrap_or(false)
    }
    /// bit-serial restoring division: obviously correct, slow; reference for `divrem`
    pub fn divrem_slow(&self, d: &BigNat) -> (BigNat, BigNat) {
        assert!(!d.is_zero(), "BigNat division by zero");
        let mut q = vec![0u32; self.0.len()];
        let mut r = BigNat::zero();
        for i in (0..self.bits()).rev() {
            r = r.shl(1);
            if self.bit(i) {
                r = r.add(&BigNat::one());
            }
            if &r >= d {
                r = r.sub(d);
                q[i / 32] |= 1 << (i % 32);
            }
        }
        (Self::norm(q), r)
    }
    fn divrem_u32(&self, d: u32) -> (BigNat, u32) {
        let mut q = vec![0u32; self.0.len()];
        let mut rem = 0u64;
        for i in (0..self.0.len()).rev() {
            let cur = (rem << 32) | self.0[i] as u64;
            q[i] = (cur / d as u64) as u32;
            rem = cur % d as u64;
        }
        (Self::norm(q), rem as u32)
    }
    /// floor division with remainder (Knuth, TAOCP vol. 2, algorithm D, base 2^32)
    pub fn divrem(&self, d: &BigNat) -> (BigNat, BigNat) {
        assert!(!d.is_zero(), "BigNat division by zero");
        if self < d {
            return (BigNat::zero(), self.clone());
        }
        if d.0.len() == 1 {
            let (q, r) = self.divrem_u32(d.0[0]);
            return (q, BigNat::from_u64(r as u64));
        }
        let s = d.0.last().unwrap().leading_zeros() as usize;
        let v = d.shl(s).0;
        let mut u = self.shl(s).0;
        let n = v.len();
        // u gets one extra high limb
        u.push(0);
        let m = u.len() - n - 1;
        let mut q = vec![0u32; m + 1];
        let b: u64 = 1 << 32;
        for j in (0..=m).rev() {
            let num = ((u[j + n] as u64) << 32) | u[j + n - 1] as u64;
            let mut qhat = num / v[n - 1] as u64;
            let mut rhat = num % v[n - 1] as u64;
            while qhat >= b || qhat * v[n - 2] as u64 > ((rhat << 32) | u[j + n - 2] as u64) {
                qhat -= 1;
                rhat += v[n - 1] as u64;
                if rhat >= b {
                    break;
                }
            }
            // multiply and subtract
            let mut borrow: i64 = 0;
            let mut carry: u64 = 0;
            for i in 0..n {
                let p = qhat as u128 * v[i] as u128 + carry as u128;
                carry = (p >> 32) as u64;
                let t = u[i + j] as i64 - borrow - (p & 0xffff_ffff) as i64;
                if t < 0 {
                    u[i + j] = (t + (1i64 << 32)) as u32;
                    borrow = 1;
                } else {
                    u[i + j] = t as u32;
                    borrow = 0;
                }
            }
            let t = u[j + n] as i64 - borrow - carry as i64;
            if t < 0 {
                u[j + n] = (t + (1i64 << 32)) as u32;
                // add back
                qhat -= 1;
                let mut c: u64 = 0;
                for i in 0..n {
                    let s2 = u[i + j] as u64 + v[i] as u64 + c;
                    u[i + j] = s2 as u32;
                    c = s2 >> 32;
                }
                u[j + n] = (u[j + n] as u64 + c) as u32;
            } else {
                u[j + n] = t as u32;
            }
            q[j] = qhat as u32;
        }
        u.truncate(n);
        let r = Self::norm(u).shr(s);
        (Self::norm(q), r)
    }
    pub fn div(&self, d: &BigNat) -> BigNat {
        self.divrem(d).0
    }
    pub fn min(self, o: BigNat) -> BigNat {
        if self <= o { self } else { o }
    }
    pub fn max(self, o: BigNat) -> BigNat {
        if self >= o { self } else { o }
    }
}
