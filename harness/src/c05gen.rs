//! C05 generators: script programs (prebuilt repository binaries driven by generated data, and
//! programs generated as C and compiled with clang at check time), transactions around them and
//! the mock chain context they are verified in.
use ckb_chain_spec::consensus::{Consensus, ConsensusBuilder, TYPE_ID_CODE_HASH};
use ckb_script::TxVerifyEnv;
use ckb_traits::{CellDataProvider, ExtensionProvider, HeaderProvider};
use ckb_types::{
    bytes::Bytes,
    core::{
        Capacity, DepType, EpochNumberWithFraction, HeaderView, ScriptHashType, TransactionBuilder,
        TransactionInfo,
        cell::{CellMeta, ResolvedTransaction},
        hardfork::{CKB2021, CKB2023, HardForks},
    },
    packed::{
        self, Byte32, CellDep, CellInput, CellOutput, OutPoint, Script, TransactionInfoBuilder,
        TransactionKeyBuilder,
    },
    prelude::*,
};
use serde::{Deserialize, Serialize};
use std::collections::HashMap;
use std::fmt::Write as _;
use std::path::PathBuf;
use std::sync::Arc;

// ---------------------------------------------------------------------------------------------
// mock chain context
// ---------------------------------------------------------------------------------------------

#[derive(Default, Clone)]
pub struct MockLoader {
    pub cells: Arc<HashMap<OutPoint, (Bytes, Byte32)>>,
    pub headers: Arc<HashMap<Byte32, HeaderView>>,
}

impl CellDataProvider for MockLoader {
    fn get_cell_data(&self, out_point: &OutPoint) -> Option<Bytes> {
        self.cells.get(out_point).map(|(d, _)| d.clone())
    }
    fn get_cell_data_hash(&self, out_point: &OutPoint) -> Option<Byte32> {
        self.cells.get(out_point).map(|(_, h)| h.clone())
    }
}

impl HeaderProvider for MockLoader {
    fn get_header(&self, hash: &Byte32) -> Option<HeaderView> {
        self.headers.get(hash).cloned()
    }
}

impl ExtensionProvider for MockLoader {
    fn get_block_extension(&self, _hash: &Byte32) -> Option<packed::Bytes> {
        None
    }
}

pub const V1_EPOCH: u64 = 5;
pub const V2_EPOCH: u64 = 10;

pub fn consensus() -> Arc<Consensus> {
    let hardfork_switch = HardForks {
        ckb2021: CKB2021::new_mirana()
            .as_builder()
            .rfc_0032(V1_EPOCH)
            .build()
            .unwrap(),
        ckb2023: CKB2023::new_mirana()
            .as_builder()
            .rfc_0049(V2_EPOCH)
            .build()
            .unwrap(),
    };
    Arc::new(
        ConsensusBuilder::default()
            .hardfork_switch(hardfork_switch)
            .build(),
    )
}

/// level 0/1/2 = the newest VM version enabled in the verification environment
pub fn tx_env(level: u8) -> Arc<TxVerifyEnv> {
    let epoch = match level {
        0 => 0,
        1 => V1_EPOCH,
        _ => V2_EPOCH,
    };
    let header = HeaderView::new_advanced_builder()
        .epoch(EpochNumberWithFraction::new(epoch, 0, 1))
        .build();
    Arc::new(TxVerifyEnv::new_commit(&header))
}

fn mock_tx_info() -> TransactionInfo {
    TransactionInfoBuilder::default()
        .block_number(1u64)
        .block_epoch(0u64)
        .key(
            TransactionKeyBuilder::default()
                .block_hash(Byte32::zero())
                .index(1u32)
                .build(),
        )
        .build()
        .into()
}

fn b32(tag: u8, n: u32) -> Byte32 {
    let mut a = [0u8; 32];
    a[0] = tag;
    a[1..5].copy_from_slice(&n.to_le_bytes());
    a[31] = 0x5c;
    Byte32::from_slice(&a).unwrap()
}

pub fn data_hash_type(vm: u8) -> ScriptHashType {
    match vm {
        0 => ScriptHashType::Data,
        1 => ScriptHashType::Data1,
        _ => ScriptHashType::Data2,
    }
}

pub fn prng_bytes(len: usize, seed: u64) -> Vec<u8> {
    // fixed xorshift: content is a pure function of (len, seed)
    let mut x = seed.wrapping_mul(0x9e37_79b9_7f4a_7c15) | 1;
    (0..len)
        .map(|_| {
            x ^= x << 13;
            x ^= x >> 7;
            x ^= x << 17;
            (x >> 24) as u8
        })
        .collect()
}

// ---------------------------------------------------------------------------------------------
// transaction assembly
// ---------------------------------------------------------------------------------------------

#[derive(Clone)]
pub struct ScriptRef {
    /// index into deps
    pub dep: usize,
    pub args: Vec<u8>,
    pub by_type: bool,
    pub vm: u8,
}

#[derive(Clone, Default)]
pub struct TxPlan {
    /// dep cell data; a dep may carry a type script so it can be referenced by type hash
    pub deps: Vec<Bytes>,
    pub inputs: Vec<(ScriptRef, Option<ScriptRef>, Bytes)>,
    pub outputs: Vec<(Option<ScriptRef>, Bytes)>,
    pub witnesses: Vec<Bytes>,
    pub type_id: bool,
    pub lazy: bool,
    pub with_header: bool,
}

fn dep_type_script(i: usize) -> Script {
    Script::new_builder()
        .code_hash(b32(0xd7, i as u32))
        .hash_type(ScriptHashType::Data)
        .args(Bytes::from(vec![i as u8]))
        .build()
}

fn make_script(plan: &TxPlan, r: &ScriptRef) -> Script {
    let b = Script::new_builder().args(Bytes::from(r.args.clone()));
    if r.by_type {
        b.code_hash(dep_type_script(r.dep).calc_script_hash())
            .hash_type(ScriptHashType::Type)
            .build()
    } else {
        b.code_hash(CellOutput::calc_data_hash(&plan.deps[r.dep]))
            .hash_type(data_hash_type(r.vm))
            .build()
    }
}

pub struct Assembled {
    pub rtx: Arc<ResolvedTransaction>,
    pub loader: MockLoader,
}

pub fn assemble(plan: &TxPlan) -> Assembled {
    let mut loader_cells: HashMap<OutPoint, (Bytes, Byte32)> = HashMap::new();
    let mut headers: HashMap<Byte32, HeaderView> = HashMap::new();
    let mk_meta = |output: CellOutput,
                       data: Bytes,
                       op: OutPoint,
                       lazy: bool,
                       cells: &mut HashMap<OutPoint, (Bytes, Byte32)>|
     -> CellMeta {
        let hash = CellOutput::calc_data_hash(&data);
        cells.insert(op.clone(), (data.clone(), hash.clone()));
        CellMeta {
            cell_output: output,
            out_point: op,
            transaction_info: Some(mock_tx_info()),
            data_bytes: data.len() as u64,
            mem_cell_data: if lazy { None } else { Some(data) },
            mem_cell_data_hash: if lazy { None } else { Some(hash) },
        }
    };
    let mut resolved_cell_deps = vec![];
    let mut cell_deps = vec![];
    for (i, d) in plan.deps.iter().enumerate() {
        let out = CellOutput::new_builder()
            .capacity(Capacity::bytes(d.len() + 100).unwrap())
            .type_(Some(dep_type_script(i)))
            .build();
        let op = OutPoint::new(b32(0xde, i as u32), 0);
        cell_deps.push(
            CellDep::new_builder()
                .out_point(op.clone())
                .dep_type(DepType::Code)
                .build(),
        );
        resolved_cell_deps.push(mk_meta(out, d.clone(), op, plan.lazy, &mut loader_cells));
    }
    let type_id_script = Script::new_builder()
        .args(Bytes::from(vec![0x11u8; 32]))
        .code_hash(TYPE_ID_CODE_HASH)
        .hash_type(ScriptHashType::Type)
        .build();
    let mut inputs = vec![];
    let mut resolved_inputs = vec![];
    for (i, (lock, typ, data)) in plan.inputs.iter().enumerate() {
        let mut typ_script = typ.as_ref().map(|t| make_script(plan, t));
        if plan.type_id && i == 0 {
            typ_script = Some(type_id_script.clone());
        }
        let out = CellOutput::new_builder()
            .capacity(Capacity::bytes(data.len() + 200).unwrap())
            .lock(make_script(plan, lock))
            .type_(typ_script)
            .build();
        let op = OutPoint::new(b32(0x1a, i as u32), i as u32);
        inputs.push(CellInput::new(op.clone(), 0));
        resolved_inputs.push(mk_meta(out, data.clone(), op, plan.lazy, &mut loader_cells));
    }
    let mut tb = TransactionBuilder::default()
        .cell_deps(cell_deps)
        .inputs(inputs);
    let out_lock = Script::new_builder()
        .code_hash(b32(0x0f, 0))
        .hash_type(ScriptHashType::Data)
        .build();
    let mut outs: Vec<(Option<Script>, Bytes)> = plan
        .outputs
        .iter()
        .map(|(t, d)| (t.as_ref().map(|t| make_script(plan, t)), d.clone()))
        .collect();
    if plan.type_id {
        // one-in-one-out type id cell: no creation rule to satisfy
        outs.insert(0, (Some(type_id_script.clone()), Bytes::from(vec![7u8; 9])));
    }
    for (t, d) in outs {
        tb = tb
            .output(
                CellOutput::new_builder()
                    .capacity(Capacity::bytes(d.len() + 200).unwrap())
                    .lock(out_lock.clone())
                    .type_(t)
                    .build(),
            )
            .output_data(d);
    }
    for w in &plan.witnesses {
        tb = tb.witness(w.clone());
    }
    if plan.with_header {
        let h = HeaderView::new_advanced_builder()
            .number(7u64)
            .timestamp(1_700_000_000_123u64)
            .epoch(EpochNumberWithFraction::new(3, 2, 10))
            .build();
        tb = tb.header_dep(h.hash());
        headers.insert(h.hash(), h);
    }
    let rtx = ResolvedTransaction {
        transaction: tb.build(),
        resolved_cell_deps,
        resolved_inputs,
        resolved_dep_groups: vec![],
    };
    Assembled {
        rtx: Arc::new(rtx),
        loader: MockLoader {
            cells: Arc::new(loader_cells),
            headers: Arc::new(headers),
        },
    }
}

// ---------------------------------------------------------------------------------------------
// repository binaries
// ---------------------------------------------------------------------------------------------

pub fn repo_dir() -> PathBuf {
    std::env::var_os("VERIF_REPO_DIR")
        .map(PathBuf::from)
        .unwrap_or_else(|| PathBuf::from("/repo"))
}

pub fn testdata(name: &str) -> Bytes {
    thread_local! {
        static CACHE: std::cell::RefCell<HashMap<String, Bytes>> = std::cell::RefCell::new(HashMap::new());
    }
    CACHE.with(|c| {
        c.borrow_mut()
            .entry(name.to_string())
            .or_insert_with(|| {
                let p = repo_dir().join("script/testdata").join(name);
                Bytes::from(std::fs::read(&p).unwrap_or_else(|e| panic!("{}: {e}", p.display())))
            })
            .clone()
    })
}

pub const SRC_INPUT: u64 = 1;
pub const SRC_OUTPUT: u64 = 2;
pub const SRC_CELL_DEP: u64 = 3;
pub const SRC_GROUP: u64 = 0x0100_0000_0000_0000;

/// A prebuilt-binary scenario.  All selectors are small integers mapped monotonically.
#[derive(Clone, Debug, Serialize, Deserialize, Hash)]
pub enum Prebuilt {
    /// entry of `SIMPLE` (binary + dependency cells + fixed args)
    Simple { which: u8, arg: u8 },
    /// spawn_cases with case id 1..=19
    SpawnCases { case_id: u8 },
    /// spawn_fuzzing: parent / child command bytes
    SpawnFuzzing { parent: Vec<u8>, child: Vec<u8> },
    /// spawn_dag driven by a generated process DAG
    SpawnDag(DagSpec),
    /// exec_configurable_caller/callee
    ExecCfg { flag: u8, recursion: u8, number: u8, expected_shift: u8, from: u8 },
    /// spawn_configurable_caller/callee
    SpawnCfg { from: u8 },
    /// load_arithmetic with a generated operation list
    LoadArith { ops: Vec<u8>, num: u8 },
    /// load_is_even_into_global / load_is_even_with_snapshot
    LoadIsEven { snapshot: bool, number: u8 },
    /// spawn_io_cycles
    SpawnIo { size: u16, check: bool },
    /// programs that never exit: infinite_loop, or spawn_caller_exec whose child execs it
    Infinite { which: u8 },
}

pub struct SimpleScn {
    pub name: &'static str,
    pub bins: &'static [&'static str],
    pub witness_bin: Option<&'static str>,
    pub min_vm: u8,
    pub heavy: bool,
}

pub const SIMPLE: &[SimpleScn] = &[
    SimpleScn { name: "always_success", bins: &["always_success"], witness_bin: None, min_vm: 0, heavy: false },
    SimpleScn { name: "always_failure", bins: &["always_failure"], witness_bin: None, min_vm: 0, heavy: false },
    SimpleScn { name: "current_cycles", bins: &["current_cycles"], witness_bin: None, min_vm: 1, heavy: false },
    SimpleScn { name: "current_cycles_with_snapshot", bins: &["current_cycles_with_snapshot"], witness_bin: None, min_vm: 1, heavy: true },
    SimpleScn { name: "vm_version", bins: &["vm_version"], witness_bin: None, min_vm: 1, heavy: false },
    SimpleScn { name: "vm_version_2", bins: &["vm_version_2"], witness_bin: None, min_vm: 2, heavy: false },
    SimpleScn { name: "vm_version_with_snapshot", bins: &["vm_version_with_snapshot"], witness_bin: None, min_vm: 1, heavy: true },
    SimpleScn { name: "cpop_lock", bins: &["cpop_lock"], witness_bin: None, min_vm: 1, heavy: false },
    SimpleScn { name: "mop_adc_lock", bins: &["mop_adc_lock"], witness_bin: None, min_vm: 1, heavy: false },
    SimpleScn { name: "cadd_hint_lock", bins: &["cadd_hint_lock"], witness_bin: None, min_vm: 0, heavy: false },
    SimpleScn { name: "exec_from_cell_data", bins: &["exec_caller_from_cell_data", "exec_callee"], witness_bin: None, min_vm: 1, heavy: true },
    SimpleScn { name: "exec_callee_pause", bins: &["exec_caller_from_cell_data", "exec_callee_pause"], witness_bin: None, min_vm: 1, heavy: true },
    SimpleScn { name: "exec_from_witness", bins: &["exec_caller_from_witness"], witness_bin: Some("exec_callee"), min_vm: 1, heavy: true },
    SimpleScn { name: "exec_big_offset_length", bins: &["exec_caller_big_offset_length", "exec_callee"], witness_bin: None, min_vm: 1, heavy: false },
    SimpleScn { name: "spawn_strcat", bins: &["spawn_caller_strcat", "spawn_callee_strcat"], witness_bin: None, min_vm: 2, heavy: true },
    SimpleScn { name: "spawn_strcat_wrap", bins: &["spawn_caller_strcat_wrap", "spawn_caller_strcat", "spawn_callee_strcat"], witness_bin: None, min_vm: 2, heavy: true },
    SimpleScn { name: "spawn_exec", bins: &["spawn_caller_exec", "spawn_callee_exec_caller", "spawn_callee_exec_callee"], witness_bin: None, min_vm: 2, heavy: true },
    SimpleScn { name: "spawn_exec_snapshot", bins: &["spawn_caller_exec", "current_cycles_with_snapshot"], witness_bin: None, min_vm: 2, heavy: true },
    SimpleScn { name: "spawn_current_cycles", bins: &["spawn_caller_current_cycles", "spawn_callee_current_cycles"], witness_bin: None, min_vm: 2, heavy: true },
    SimpleScn { name: "spawn_recursive", bins: &["spawn_recursive"], witness_bin: None, min_vm: 2, heavy: true },
    SimpleScn { name: "spawn_cycles", bins: &["spawn_cycles", "spawn_cycles"], witness_bin: None, min_vm: 2, heavy: true },
    SimpleScn { name: "spawn_saturate_memory", bins: &["spawn_saturate_memory"], witness_bin: None, min_vm: 2, heavy: true },
];

fn le64s(v: &[u64]) -> Vec<u8> {
    v.iter().flat_map(|x| x.to_le_bytes()).collect()
}

pub struct Built {
    pub asm: Assembled,
    pub level: u8,
    pub desc: String,
    /// programme issues many syscalls relative to its length (used by the non-trivial rule)
    pub syscall_heavy: bool,
    pub multi_vm: bool,
    /// the programme may call load_cell_data_as_code with a content size that does not fill its
    /// memory pages (dlopen of a library, generated LoadCode statements)
    pub partial_code_load: bool,
}

fn single_lock_plan(bins: &[&str], args: Vec<u8>, vm: u8) -> TxPlan {
    TxPlan {
        deps: bins.iter().map(|b| testdata(b)).collect(),
        inputs: vec![(ScriptRef { dep: 0, args, by_type: false, vm }, None, Bytes::new())],
        ..Default::default()
    }
}

/// Builds the transaction of a prebuilt scenario under VM version `vm`.
pub fn build_prebuilt(p: &Prebuilt, vm: u8, level: u8) -> Built {
    let mut heavy = true;
    let mut multi_vm = false;
    let (plan, desc) = match p {
        Prebuilt::Simple { which, arg } => {
            let s = &SIMPLE[*which as usize % SIMPLE.len()];
            let mut plan = single_lock_plan(s.bins, vec![*arg], vm);
            if let Some(w) = s.witness_bin {
                plan.witnesses.push(testdata(w));
            }
            if s.name == "exec_big_offset_length" {
                plan.deps[1] = Bytes::from(vec![0u8, 1, 2, 3]);
            }
            heavy = s.heavy;
            multi_vm = s.name.starts_with("spawn");
            (plan, s.name.to_string())
        }
        Prebuilt::SpawnCases { case_id } => {
            multi_vm = true;
            (
                single_lock_plan(&["spawn_cases"], vec![*case_id], vm),
                format!("spawn_cases[{case_id}]"),
            )
        }
        Prebuilt::SpawnFuzzing { parent, child } => {
            multi_vm = true;
            let mut plan = single_lock_plan(&["spawn_fuzzing"], vec![], vm);
            plan.witnesses = vec![Bytes::from(parent.clone()), Bytes::from(child.clone())];
            (plan, "spawn_fuzzing".to_string())
        }
        Prebuilt::SpawnDag(d) => {
            multi_vm = true;
            let mut plan = single_lock_plan(&["spawn_dag"], vec![], vm);
            plan.witnesses = vec![Bytes::from(d.encode())];
            (plan, format!("spawn_dag[vms={},writes={}]", d.parents.len() + 1, d.writes.len()))
        }
        Prebuilt::ExecCfg { flag, recursion, number, expected_shift, from } => {
            let callee = testdata("exec_configurable_callee");
            let lib = testdata("mul2.lib");
            let f = *from % 9;
            let (index, source, place, bounds): (u64, u64, u64, u64) = match f {
                0 => (0, SRC_INPUT, 1, 0),
                1 => (0, SRC_OUTPUT, 1, 0),
                2 => (0, SRC_GROUP | SRC_INPUT, 1, 0),
                3 => (1, SRC_CELL_DEP, 0, 0),
                4 => (1, SRC_INPUT, 0, 0),
                5 => (0, SRC_OUTPUT, 0, 0),
                6 => (0, SRC_GROUP | SRC_INPUT, 0, 0),
                7 => (0, SRC_INPUT, 1, (10u64 << 32) | callee.len() as u64),
                _ => (0, SRC_INPUT, 1, callee.len() as u64),
            };
            let rec = (*recursion % 6) as u64;
            let number = *number as u64 + 1;
            // without the "apply before exec" bit the callee ends with number - recursion (doubled
            // when "apply after exec" is set); otherwise the expectation is a guess and the
            // script fails at its very last comparison
            let expected = if *flag & 1 == 0 && number > rec && *expected_shift % 4 != 3 {
                (number - rec) << u64::from(*flag & 4 != 0)
            } else {
                number << (*expected_shift % 8)
            };
            let mut args = vec![*flag % 8];
            args.extend(le64s(&[(*recursion % 6) as u64, number, expected, index, source, place, bounds]));
            args.extend_from_slice(CellOutput::calc_data_hash(&lib).as_slice());
            let mut plan = TxPlan {
                deps: vec![testdata("exec_configurable_caller"), callee.clone(), lib, testdata("always_success")],
                inputs: vec![(ScriptRef { dep: 0, args, by_type: false, vm }, None, Bytes::new())],
                ..Default::default()
            };
            let asucc = ScriptRef { dep: 3, args: vec![], by_type: false, vm: 0 };
            match f {
                0..=2 | 8 => plan.witnesses.push(callee),
                7 => {
                    let mut d = vec![0u8; 10];
                    d.extend_from_slice(&callee);
                    plan.witnesses.push(Bytes::from(d));
                }
                3 => {}
                4 => plan.inputs.push((asucc, None, callee)),
                5 => plan.outputs.push((None, callee)),
                _ => plan.inputs[0].2 = callee,
            }
            (plan, format!("exec_configurable[from={f},flag={},rec={}]", flag % 8, recursion % 6))
        }
        Prebuilt::SpawnCfg { from } => {
            multi_vm = true;
            let callee = testdata("spawn_configurable_callee");
            let f = *from % 10;
            let pos: [u64; 4] = match f {
                0 => [0, SRC_INPUT, 1, 0],
                1 => [0, SRC_GROUP | SRC_INPUT, 1, 0],
                2 => [0, SRC_OUTPUT, 1, 0],
                3 => [1, SRC_CELL_DEP, 0, 0],
                4 => [1, SRC_INPUT, 0, 0],
                5 => [0, SRC_OUTPUT, 0, 0],
                6 => [0, SRC_GROUP | SRC_INPUT, 0, 0],
                7 => [0, SRC_INPUT, 1, 0],
                8 => [0, SRC_INPUT, 1, (1u64 << 32)],
                _ => [0, SRC_INPUT, 1, (1u64 << 32) | callee.len() as u64],
            };
            let mut plan = TxPlan {
                deps: vec![testdata("spawn_configurable_caller"), callee.clone(), testdata("always_success")],
                inputs: vec![(ScriptRef { dep: 0, args: le64s(&pos), by_type: false, vm }, None, Bytes::new())],
                ..Default::default()
            };
            let asucc = ScriptRef { dep: 2, args: vec![], by_type: false, vm: 0 };
            match f {
                0..=2 | 7 => plan.witnesses.push(callee),
                8 | 9 => {
                    let mut d = vec![0u8; 1];
                    d.extend_from_slice(&callee);
                    if f == 9 {
                        d.extend_from_slice(&[0u8; 0x12]);
                    }
                    plan.witnesses.push(Bytes::from(d));
                }
                3 => {}
                4 => plan.inputs.push((asucc, None, callee)),
                5 => plan.outputs.push((None, callee)),
                _ => plan.inputs[0].2 = callee,
            }
            (plan, format!("spawn_configurable[from={f}]"))
        }
        Prebuilt::LoadArith { ops, num } => {
            let libs = ["add1.lib", "sub1.lib", "mul2.lib", "div2.lib"];
            let mut deps: Vec<Bytes> = libs.iter().map(|l| testdata(l)).collect();
            deps.push(testdata("load_arithmetic"));
            // args: num0, expected, then one library data hash per operation
            let mut n = *num as u64;
            let mut hashes = vec![];
            for o in ops {
                let k = (*o % 4) as usize;
                n = match k {
                    0 => n.wrapping_add(1),
                    1 => n.wrapping_sub(1),
                    2 => n.wrapping_mul(2),
                    _ => n / 2,
                };
                hashes.extend_from_slice(CellOutput::calc_data_hash(&deps[k]).as_slice());
            }
            let mut args = le64s(&[*num as u64, n]);
            args.extend(hashes);
            let plan = TxPlan {
                deps,
                inputs: vec![(ScriptRef { dep: 4, args, by_type: false, vm }, None, Bytes::new())],
                ..Default::default()
            };
            (plan, format!("load_arithmetic[ops={}]", ops.len()))
        }
        Prebuilt::LoadIsEven { snapshot, number } => {
            let lib = testdata("is_even.lib");
            let bin = if *snapshot { "load_is_even_with_snapshot" } else { "load_is_even_into_global" };
            let mut args = le64s(&[*number as u64]);
            args.extend_from_slice(CellOutput::calc_data_hash(&lib).as_slice());
            let plan = TxPlan {
                deps: vec![testdata(bin), lib],
                inputs: vec![(ScriptRef { dep: 0, args, by_type: false, vm }, None, Bytes::new())],
                ..Default::default()
            };
            (plan, bin.to_string())
        }
        Prebuilt::Infinite { which } => {
            if which % 2 == 0 {
                (single_lock_plan(&["infinite_loop"], vec![], vm), "infinite_loop".to_string())
            } else {
                multi_vm = true;
                (
                    single_lock_plan(&["spawn_caller_exec", "infinite_loop"], vec![], vm),
                    "spawn_caller_exec+infinite_loop".to_string(),
                )
            }
        }
        Prebuilt::SpawnIo { size, check } => {
            multi_vm = true;
            let mut args = vec![0u8; 16];
            args[..8].copy_from_slice(&(*size as u64).to_le_bytes());
            args[8] = *check as u8;
            (single_lock_plan(&["spawn_io_cycles"], args, vm), format!("spawn_io_cycles[{size}]"))
        }
    };
    let partial_code_load = match p {
        Prebuilt::LoadArith { ops, .. } => !ops.is_empty(),
        Prebuilt::LoadIsEven { .. } => true,
        Prebuilt::ExecCfg { flag, .. } => flag & 5 != 0,
        _ => false,
    };
    Built {
        partial_code_load,
        asm: assemble(&plan),
        level,
        desc: format!("{desc}@vm{vm}"),
        syscall_heavy: heavy,
        multi_vm: multi_vm && vm == 2,
    }
}

// ---------------------------------------------------------------------------------------------
// spawn_dag data (molecule encoding written out by hand: spawn_dag.mol)
// ---------------------------------------------------------------------------------------------

#[derive(Clone, Debug, Serialize, Deserialize, Hash)]
pub struct DagWrite {
    pub from: u16,
    pub to: u16,
    pub len: u16,
    pub seed: u8,
}

/// Process tree (parents[i] is the selector of the parent of VM i+1 among VMs 0..=i) and the
/// ordered list of pipe transfers between VMs.
#[derive(Clone, Debug, Serialize, Deserialize, Hash)]
pub struct DagSpec {
    pub parents: Vec<u16>,
    pub writes: Vec<DagWrite>,
}

fn mol_table(fields: &[Vec<u8>]) -> Vec<u8> {
    let header = 4 + 4 * fields.len();
    let total = header + fields.iter().map(|f| f.len()).sum::<usize>();
    let mut v = (total as u32).to_le_bytes().to_vec();
    let mut off = header;
    for f in fields {
        v.extend_from_slice(&(off as u32).to_le_bytes());
        off += f.len();
    }
    for f in fields {
        v.extend_from_slice(f);
    }
    v
}

fn mol_dynvec(items: &[Vec<u8>]) -> Vec<u8> {
    mol_table(items)
}

fn mol_fixvec(count: usize, body: Vec<u8>) -> Vec<u8> {
    let mut v = (count as u32).to_le_bytes().to_vec();
    v.extend(body);
    v
}

impl DagSpec {
    pub fn n_vms(&self) -> usize {
        self.parents.len() + 1
    }

    pub fn parent_of(&self, i: usize) -> usize {
        // VM i (>=1): parent among 0..i
        crate::common::pick_idx(self.parents[i - 1] as u32, i)
    }

    fn path_to_root(&self, mut v: usize) -> Vec<usize> {
        let mut p = vec![v];
        while v != 0 {
            v = self.parent_of(v);
            p.push(v);
        }
        p
    }

    pub fn encode(&self) -> Vec<u8> {
        let n = self.n_vms();
        let idx = |v: u64| v.to_le_bytes().to_vec();
        // fds passed along each spawn edge (keyed by child), pipes created per vm
        let mut passed: Vec<Vec<u64>> = vec![vec![]; n];
        let mut pipes: Vec<Vec<(u64, u64)>> = vec![vec![]; n];
        let mut writes_enc = vec![];
        let mut e = 0u64;
        for w in &self.writes {
            let from = crate::common::pick_idx(w.from as u32, n);
            let mut to = crate::common::pick_idx(w.to as u32, n);
            if n < 2 {
                break;
            }
            if to == from {
                to = (from + 1) % n;
            }
            let rfd = e * 2;
            let wfd = e * 2 + 1;
            e += 1;
            let pa = self.path_to_root(from);
            let pb = self.path_to_root(to);
            let lca = *pa.iter().find(|x| pb.contains(x)).unwrap();
            for v in pa.iter().take_while(|v| **v != lca) {
                passed[*v].push(wfd);
            }
            for v in pb.iter().take_while(|v| **v != lca) {
                passed[*v].push(rfd);
            }
            pipes[lca].push((rfd, wfd));
            let data = prng_bytes(w.len.max(1) as usize, w.seed as u64 + 1);
            writes_enc.push(mol_table(&[
                idx(from as u64),
                idx(wfd),
                idx(to as u64),
                idx(rfd),
                mol_fixvec(data.len(), data),
            ]));
        }
        // spawns in breadth-first order from the root, children of a node in reverse order (as
        // the repository's generator does)
        let mut spawns_enc = vec![];
        let mut queue = std::collections::VecDeque::from([0usize]);
        while let Some(node) = queue.pop_front() {
            let children: Vec<usize> = (1..n).filter(|c| self.parent_of(*c) == node).collect();
            for c in children.into_iter().rev() {
                let fds = &passed[c];
                spawns_enc.push(mol_table(&[
                    idx(node as u64),
                    idx(c as u64),
                    mol_fixvec(fds.len(), fds.iter().flat_map(|f| f.to_le_bytes()).collect()),
                ]));
                queue.push_back(c);
            }
        }
        let mut pipes_enc = vec![];
        for (vm, ps) in pipes.iter().enumerate() {
            for (r, w) in ps {
                pipes_enc.push(mol_table(&[idx(vm as u64), idx(*r), idx(*w)]));
            }
        }
        mol_table(&[mol_dynvec(&spawns_enc), mol_dynvec(&pipes_enc), mol_dynvec(&writes_enc)])
    }
}

// ---------------------------------------------------------------------------------------------
// generated programs
// ---------------------------------------------------------------------------------------------

#[derive(Clone, Debug, Serialize, Deserialize, Hash)]
pub struct LoadSys {
    /// index into LOADS
    pub kind: u8,
    pub off: u16,
    pub len: u16,
    pub index: u8,
    pub src: u8,
    pub field: u8,
    pub big: bool,
    pub dst: u16,
}

#[derive(Clone, Debug, Serialize, Deserialize, Hash)]
pub enum Stmt {
    Arith(u8),
    Loop(u8, Vec<Stmt>),
    Store(u16, u8),
    LoadMem(u16),
    BigTouch(u8, u16),
    Load(LoadSys),
    LoadCode { page: u8, npages: u8, coff: u16, csize: u16, index: u8, src: u8 },
    CurrentCycles,
    VmVersion,
    ProcessId,
    Debug,
    Pause,
    ExitIf(u8, i8),
}

pub const LOADS: &[(&str, u64, bool, bool)] = &[
    // name, syscall number, takes (index, source), takes field
    ("load_tx_hash", 2061, false, false),
    ("load_script_hash", 2062, false, false),
    ("load_script", 2052, false, false),
    ("load_tx", 2051, false, false),
    ("load_cell", 2071, true, false),
    ("load_input", 2073, true, false),
    ("load_header", 2072, true, false),
    ("load_witness", 2074, true, false),
    ("load_cell_data", 2092, true, false),
    ("load_cell_by_field", 2081, true, true),
    ("load_input_by_field", 2083, true, true),
    ("load_header_by_field", 2082, true, true),
];

pub const SOURCES: &[u64] = &[
    SRC_INPUT,
    SRC_OUTPUT,
    SRC_CELL_DEP,
    4,
    SRC_GROUP | SRC_INPUT,
    SRC_GROUP | SRC_OUTPUT,
];

#[derive(Clone, Debug, Serialize, Deserialize, Hash)]
pub struct Proc {
    /// selector of the parent among the earlier processes (ignored for process 0)
    pub parent: u16,
    pub pre: Vec<Stmt>,
    pub between: Vec<Stmt>,
    pub post: Vec<Stmt>,
    pub wait: bool,
    pub close_after: bool,
    pub inherit_cap: u8,
    /// exec into a leaf role running these statements instead of exiting
    pub exec_tail: Option<Vec<Stmt>>,
}

#[derive(Clone, Debug, Serialize, Deserialize, Hash)]
pub struct Msg {
    /// selector of the tree edge, identified by its child process (1..n)
    pub edge: u16,
    pub down: bool,
    pub len: u16,
    pub wchunk: u16,
    pub rchunk: u16,
}

#[derive(Clone, Debug, Serialize, Deserialize, Hash)]
pub struct Prog {
    pub procs: Vec<Proc>,
    pub msgs: Vec<Msg>,
    pub exit_mask: u8,
    pub tail_mask: u8,
    pub seed: u8,
    /// extra iterations of a closing loop (long-running programs for the signalled runs)
    #[serde(default)]
    pub spin: u32,
    /// smallest possible image (one segment, no helpers) for the exhaustive pair sweeps
    #[serde(default)]
    pub ultra: bool,
}

impl Prog {
    pub fn parent_of(&self, i: usize) -> usize {
        crate::common::pick_idx(self.procs[i].parent as u32, i)
    }

    pub fn count_syscalls(&self) -> u64 {
        fn cnt(s: &[Stmt]) -> u64 {
            s.iter()
                .map(|s| match s {
                    Stmt::Loop(n, b) => (*n as u64) * cnt(b),
                    Stmt::Load(_)
                    | Stmt::LoadCode { .. }
                    | Stmt::CurrentCycles
                    | Stmt::VmVersion
                    | Stmt::ProcessId
                    | Stmt::Debug
                    | Stmt::Pause => 1,
                    _ => 0,
                })
                .sum()
        }
        let mut n = 0;
        for p in &self.procs {
            n += cnt(&p.pre) + cnt(&p.post) + cnt(&p.between) * (self.msgs.len() as u64 + 1);
            if let Some(t) = &p.exec_tail {
                n += 1 + cnt(t);
            }
        }
        n + self.msgs.len() as u64 * 2 + (self.procs.len() as u64 - 1) * 5
    }
}

const SCR: usize = 2048;
const BIG_PAGES: usize = 4;
const CODE_PAGES: usize = 2;
const MSGBUF: usize = 4096;

fn render_stmts(out: &mut String, stmts: &[Stmt], depth: usize, ind: usize) {
    let pad = " ".repeat(ind * 2);
    for s in stmts {
        match s {
            Stmt::Arith(k) => {
                let _ = writeln!(out, "{pad}acc = acc * 6364136223846793005UL + {k}UL; acc ^= acc >> 17;");
            }
            Stmt::Loop(n, body) => {
                if depth >= 3 {
                    render_stmts(out, body, depth, ind);
                } else {
                    let _ = writeln!(out, "{pad}for (u64 i{depth} = 0; i{depth} < {n}UL; i{depth}++) {{");
                    render_stmts(out, body, depth + 1, ind + 1);
                    let _ = writeln!(out, "{pad}}}");
                }
            }
            Stmt::Store(off, len) => {
                let _ = writeln!(
                    out,
                    "{pad}for (u64 j = 0; j < {len}UL; j++) scratch[({off}UL + j) % {SCR}UL] = (u8)(acc + j);"
                );
            }
            Stmt::LoadMem(off) => {
                let a = *off as usize % SCR;
                let b = (*off as usize * 7 + 3) % SCR;
                let _ = writeln!(out, "{pad}MIX(scratch[{a}]); MIX(scratch[{b}]);");
            }
            Stmt::BigTouch(page, off) => {
                let a = (*page as usize % BIG_PAGES) * 4096 + (*off as usize % 4096);
                let _ = writeln!(out, "{pad}big[{a}] ^= (u8)acc; MIX(big[{a}]);");
            }
            Stmt::Load(l) => {
                let (_, num, has_idx, has_field) = LOADS[l.kind as usize % LOADS.len()];
                let (dst, cap, step) = if l.big {
                    let base = (l.dst as usize % BIG_PAGES) * 4096
                        + if l.dst & 0x100 != 0 { (l.dst & 0xff) as usize } else { 0 };
                    let cap = BIG_PAGES * 4096 - base;
                    (format!("big + {base}"), cap.min(3 * 4096 + 512), 61)
                } else {
                    let base = l.dst as usize % (SCR / 2);
                    (format!("scratch + {base}"), SCR - base, 1)
                };
                let want = if l.big {
                    // prefer lengths that cover whole pages
                    ((l.len as usize) * 4) % (cap + 1)
                } else {
                    (l.len as usize) % (cap + 1)
                };
                let idx = if has_idx { (l.index % 4) as u64 } else { 0 };
                let src = if has_idx { SOURCES[l.src as usize % SOURCES.len()] } else { 0 };
                let field = if has_field { (l.field % 8) as u64 } else { 0 };
                let _ = writeln!(
                    out,
                    "{pad}ld({num}UL, {dst}, {want}UL, {off}UL, {idx}UL, {src}UL, {field}UL, {step}UL);",
                    off = l.off
                );
            }
            Stmt::LoadCode { page, npages, coff, csize, index, src } => {
                let page = *page as usize % CODE_PAGES;
                let np = (*npages as usize % (CODE_PAGES - page)) + 1;
                let csize = (*csize as usize * 4) % (np * 4096 + 1);
                let src = SOURCES[*src as usize % SOURCES.len()];
                let _ = writeln!(
                    out,
                    "{pad}{{ i64 r = sc(2091UL, (u64)(code + {a}), {m}UL, {coff}UL, {csize}UL, {index}UL, {src}UL); MIX(r); MIX(code[{a}]); MIX(code[{b}]); }}",
                    a = page * 4096,
                    m = np * 4096,
                    b = page * 4096 + 4095,
                    index = index % 4,
                );
            }
            Stmt::CurrentCycles => {
                let _ = writeln!(out, "{pad}MIX(sc(2042UL, 0, 0, 0, 0, 0, 0));");
            }
            Stmt::VmVersion => {
                let _ = writeln!(out, "{pad}MIX(sc(2041UL, 0, 0, 0, 0, 0, 0));");
            }
            Stmt::ProcessId => {
                let _ = writeln!(out, "{pad}MIX(sc(2603UL, 0, 0, 0, 0, 0, 0));");
            }
            Stmt::Debug => {
                let _ = writeln!(out, "{pad}sc(2177UL, (u64)\"c05\", 0, 0, 0, 0, 0);");
            }
            Stmt::Pause => {
                let _ = writeln!(out, "{pad}sc(2178UL, 0, 0, 0, 0, 0, 0);");
            }
            Stmt::ExitIf(mask, code) => {
                let _ = writeln!(out, "{pad}if ((acc & {mask}UL) == 0) ex({code});");
            }
        }
    }
}

fn uses(stmts: &[Stmt], f: &dyn Fn(&Stmt) -> bool) -> bool {
    stmts.iter().any(|s| match s {
        Stmt::Loop(_, b) => uses(b, f),
        s => f(s),
    })
}

impl Prog {
    fn all_stmts(&self) -> Vec<&[Stmt]> {
        let mut v: Vec<&[Stmt]> = vec![];
        for p in &self.procs {
            v.push(&p.pre);
            v.push(&p.between);
            v.push(&p.post);
            if let Some(t) = &p.exec_tail {
                v.push(t);
            }
        }
        v
    }

    /// Renders the programme as freestanding C.  `self_dep` is the index of the cell dep that will
    /// hold the compiled programme (spawn and exec load the programme itself from there).
    pub fn render(&self, self_dep: usize, vm: u8) -> String {
        let n = self.procs.len();
        let all = self.all_stmts();
        let use_big = all.iter().any(|s| {
            uses(s, &|s| matches!(s, Stmt::BigTouch(..)) || matches!(s, Stmt::Load(l) if l.big))
        });
        let use_code = all.iter().any(|s| uses(s, &|s| matches!(s, Stmt::LoadCode { .. })));
        let use_ld = all.iter().any(|s| uses(s, &|s| matches!(s, Stmt::Load(_))));
        let use_scratch = use_ld
            || all
                .iter()
                .any(|s| uses(s, &|s| matches!(s, Stmt::Store(..) | Stmt::LoadMem(_))));
        let comm = n > 1;
        let mut o = String::new();
        o.push_str(
            r#"typedef unsigned long u64; typedef long i64; typedef unsigned char u8; typedef signed char i8;
static inline i64 sc(u64 n, u64 a0, u64 a1, u64 a2, u64 a3, u64 a4, u64 a5) {
  register u64 r0 asm("a0") = a0; register u64 r1 asm("a1") = a1; register u64 r2 asm("a2") = a2;
  register u64 r3 asm("a3") = a3; register u64 r4 asm("a4") = a4; register u64 r5 asm("a5") = a5;
  register u64 r7 asm("a7") = n;
  asm volatile("ecall" : "+r"(r0) : "r"(r1), "r"(r2), "r"(r3), "r"(r4), "r"(r5), "r"(r7) : "memory");
  return (i64)r0;
}
@@MEMFUNCS@@
static u64 acc;
#define MIX(v) do { acc = (acc ^ (u64)(v)) * 0x100000001b3UL + 0x9e3779b9UL; acc ^= acc >> 29; } while (0)
FN void ex(i64 c) { sc(93UL, (u64)c, 0, 0, 0, 0, 0); for (;;) {} }
"#,
        );
        let o_fixed = o.replace(
            "@@MEMFUNCS@@",
            if self.ultra {
                ""
            } else {
                r#"void *memset(void *d, int c, u64 n) { u8 *p = d; while (n--) { *p++ = (u8)c; asm volatile("" ::: "memory"); } return d; }
void *memcpy(void *d, const void *s, u64 n) { u8 *p = d; const u8 *q = s; while (n--) { *p++ = *q++; asm volatile("" ::: "memory"); } return d; }"#
            },
        );
        o = o_fixed;
        if use_scratch || comm {
            let _ = writeln!(o, "static u8 scratch[{SCR}];");
        }
        if use_big {
            let _ = writeln!(o, "static u8 big[{}] __attribute__((aligned(4096)));", BIG_PAGES * 4096);
        }
        if use_code {
            let _ = writeln!(o, "static u8 code[{}] __attribute__((aligned(4096)));", CODE_PAGES * 4096);
        }
        if use_ld {
            o.push_str(
                r#"FNNI void ld(u64 num, u8 *dst, u64 want, u64 off, u64 a3, u64 a4, u64 a5, u64 step) {
  LEN_STORAGE u64 len; len = want;
  i64 r = sc(num, (u64)dst, (u64)&len, off, a3, a4, a5);
  MIX(r); MIX(len);
  if (r == 0) { u64 m = len < want ? len : want; for (u64 j = 0; j < m; j += step) MIX(dst[j]); }
}
"#,
            );
        }
        if comm || self.procs.iter().any(|p| p.exec_tail.is_some()) {
        o.push_str(
            r#"FN void tohex(char *d, u64 v) { for (int i = 0; i < 16; i++) { u64 x = (v >> (i * 4)) & 15; d[i] = (char)(x < 10 ? '0' + x : 'a' + x - 10); } d[16] = 0; }
"#,
        );
        }
        if comm {
            let _ = writeln!(o, "static u8 msgbuf[{MSGBUF}];");
            o.push_str(
                r#"FNNI void wr_all(u64 fd, u64 len, u64 chunk) {
  for (u64 j = 0; j < len; j++) msgbuf[j] = (u8)(acc + j * 31);
  u64 done = 0;
  while (done < len) {
    u64 l = len - done; if (l > chunk) l = chunk;
    i64 r = sc(2605UL, fd, (u64)(msgbuf + done), (u64)&l, 0, 0, 0);
    MIX(r); MIX(l);
    if (r != 0 || l == 0) return;
    done += l;
  }
}
FNNI void rd_all(u64 fd, u64 len, u64 chunk) {
  u64 done = 0;
  while (done < len) {
    u64 l = len - done; if (l > chunk) l = chunk;
    i64 r = sc(2606UL, fd, (u64)(msgbuf + done), (u64)&l, 0, 0, 0);
    MIX(r); MIX(l);
    if (r != 0 || l == 0) return;
    for (u64 j = 0; j < l; j += 3) MIX(msgbuf[done + j]);
    done += l;
  }
}
struct spawn_args { u64 argc; char **argv; u64 *pid; u64 *fds; };
"#,
            );
        }
        // leaf roles reached by exec
        for (i, p) in self.procs.iter().enumerate() {
            if let Some(t) = &p.exec_tail {
                let _ = writeln!(o, "FN void leaf_{i}(void) {{");
                render_stmts(&mut o, t, 0, 1);
                let _ = writeln!(o, "}}");
            }
        }
        for (i, p) in self.procs.iter().enumerate() {
            let children: Vec<usize> = (1..n).filter(|c| self.parent_of(*c) == i).collect();
            let _ = writeln!(o, "FN void proc_{i}(void) {{");
            if i > 0 {
                let cap = p.inherit_cap % 5;
                let _ = writeln!(
                    o,
                    "  u64 fin[4] = {{~0UL, ~0UL, ~0UL, ~0UL}}; u64 nin = {cap}UL;\n  {{ i64 r = sc(2607UL, (u64)fin, (u64)&nin, 0, 0, 0, 0); MIX(r); MIX(nin); }}\n  u64 pr = fin[0], pw = fin[1];"
                );
            }
            render_stmts(&mut o, &p.pre, 0, 1);
            for c in &children {
                let _ = writeln!(
                    o,
                    "  u64 dn{c}[2] = {{~0UL, ~0UL}}, up{c}[2] = {{~0UL, ~0UL}}, pid{c} = ~0UL;\n  {{ i64 r = sc(2604UL, (u64)dn{c}, 0, 0, 0, 0, 0); MIX(r); r = sc(2604UL, (u64)up{c}, 0, 0, 0, 0, 0); MIX(r);\n    u64 pass[3] = {{dn{c}[0], up{c}[1], 0}}; char a0[2] = {{(char)('A' + {c}), 0}}; char a1[17]; tohex(a1, acc);\n    char *av[2] = {{a0, a1}}; struct spawn_args sa = {{2, av, &pid{c}, pass}};\n    r = sc(2601UL, {self_dep}UL, 3UL, 0, 0, (u64)&sa, 0); MIX(r); MIX(pid{c}); }}"
                );
            }
            for (mi, m) in self.msgs.iter().enumerate() {
                if n < 2 {
                    break;
                }
                let edge = 1 + crate::common::pick_idx(m.edge as u32, n - 1);
                let len = (m.len as usize % MSGBUF) + 1;
                let wch = (m.wchunk as usize % MSGBUF) + 1;
                let rch = (m.rchunk as usize % MSGBUF) + 1;
                let mut involved = false;
                if edge == i {
                    involved = true;
                    if m.down {
                        let _ = writeln!(o, "  rd_all(pr, {len}UL, {rch}UL);");
                    } else {
                        let _ = writeln!(o, "  wr_all(pw, {len}UL, {wch}UL);");
                    }
                } else if self.parent_of(edge) == i {
                    involved = true;
                    if m.down {
                        let _ = writeln!(o, "  wr_all(dn{edge}[1], {len}UL, {wch}UL);");
                    } else {
                        let _ = writeln!(o, "  rd_all(up{edge}[0], {len}UL, {rch}UL);");
                    }
                }
                if involved && !p.between.is_empty() {
                    let k = mi % p.between.len();
                    render_stmts(&mut o, &p.between[k..=k], 0, 1);
                }
            }
            render_stmts(&mut o, &p.post, 0, 1);
            if p.close_after {
                for c in &children {
                    let _ = writeln!(
                        o,
                        "  MIX(sc(2608UL, dn{c}[1], 0, 0, 0, 0, 0)); MIX(sc(2608UL, up{c}[0], 0, 0, 0, 0, 0));"
                    );
                }
            }
            if p.wait {
                for c in children.iter().rev() {
                    let _ = writeln!(
                        o,
                        "  {{ i8 code = -1; i64 r = sc(2602UL, pid{c}, (u64)&code, 0, 0, 0, 0); MIX(r); MIX((u8)code); }}"
                    );
                }
            }
            if p.exec_tail.is_some() {
                let _ = writeln!(
                    o,
                    "  {{ char a0[2] = {{(char)('a' + {i}), 0}}; char a1[17]; tohex(a1, acc); char *av[2] = {{a0, a1}};\n    i64 r = sc(2043UL, {self_dep}UL, 3UL, 0, 0, 2UL, (u64)av); MIX(r); }}"
                );
            }
            let _ = writeln!(o, "}}");
        }
        let _ = writeln!(
            o,
            "FN int fin_(void) {{ u64 n = (acc & {tm}UL) + {spin}UL; for (u64 i = 0; i < n; i++) {{ acc = acc * 3 + i; asm volatile(\"\" ::: \"memory\"); }} return (int)((acc >> 8) & {em}UL); }}",
            spin = self.spin,
            tm = self.tail_mask,
            em = self.exit_mask & 0x7f
        );
        let _ = writeln!(o, "int main(int argc, char **argv) {{\n  acc = {}UL;", self.seed as u64 + 1);
        if self.ultra {
            // no ecall at all (each costs 500 cycles): the programme ends in a VM fault
            if self.seed % 2 == 0 {
                let _ = writeln!(o, "  proc_0(); fin_(); *(volatile u8 *)0xFFFFFFFFFFFFFF00UL = (u8)acc; return 0;\n}}");
            } else {
                let _ = writeln!(o, "  proc_0(); fin_(); asm volatile(\".word 0\"); return 0;\n}}");
            }
        } else {
        let _ = writeln!(o, "  if (argc == 0) {{ proc_0(); return fin_(); }}");
        let _ = writeln!(
            o,
            "  for (int i = 1; i < argc; i++) for (char *p = argv[i]; *p; p++) MIX(*p);\n  switch (argv[0][0]) {{"
        );
        for i in 1..n {
            let _ = writeln!(o, "    case 'A' + {i}: proc_{i}(); return fin_();");
        }
        for (i, p) in self.procs.iter().enumerate() {
            if p.exec_tail.is_some() {
                let _ = writeln!(o, "    case 'a' + {i}: leaf_{i}(); return fin_();");
            }
        }
        let _ = writeln!(o, "  }}\n  return 99;\n}}");
        }
        o = o.replace("LEN_STORAGE", "");
        // VM version 0 mis-executes `jalr ra, imm(ra)` (the call sequence lld leaves unrelaxed):
        // no calls at all there, everything is inlined and _start uses jal
        let defs = if vm == 0 {
            "#define FN static inline __attribute__((always_inline))\n#define FNNI static inline __attribute__((always_inline))\n"
        } else {
            "#define FN static\n#define FNNI static __attribute__((noinline))\n"
        };
        o = format!("{defs}{o}");
        if vm == 0 {
            // VM version 0 pushes nothing on the stack when there are no arguments and rejects
            // accesses that touch the very last bytes of memory
            o.push_str(
                r#"__attribute__((naked)) void _start(void) {
  asm volatile("addi sp, sp, -64\n li a0, 0\n li a1, 0\n li a2, 0\n jal main\n li a7, 93\n ecall");
}
"#,
            );
        } else {
        o.push_str(
            r#"__attribute__((naked)) void _start(void) {
  asm volatile("lw a0, 0(sp)\n addi a1, sp, 8\n li a2, 0\n call main\n li a7, 93\n ecall");
}
"#,
        );
        }
        o
    }
}

fn cache_dir() -> PathBuf {
    let base = std::env::var_os("VERIF_SCRATCH")
        .map(PathBuf::from)
        .or_else(|| {
            let shm = PathBuf::from("/dev/shm");
            if shm.is_dir() { Some(shm) } else { None }
        })
        .unwrap_or_else(std::env::temp_dir);
    let d = base.join("vc05-elf-cache");
    let _ = std::fs::create_dir_all(&d);
    d
}

/// Compiles C source for VM version `vm` (V0 has no B extension).  Cached by source hash.
pub fn compile(src: &str, vm: u8, ultra: bool) -> Result<Bytes, String> {
    let march = if vm == 0 { "rv64imc" } else { "rv64imc_zba_zbb_zbc_zbs" };
    let key = crate::common::fxhash64(&(src, march, ultra, "v6"));
    let dir = cache_dir();
    let elf = dir.join(format!("{key:016x}.elf"));
    if let Some(d) = std::env::var_os("C05_DUMP") {
        let _ = std::fs::write(PathBuf::from(d).join(format!("{key:016x}.vm{vm}.c")), src);
    }
    if let Ok(b) = std::fs::read(&elf) {
        if !b.is_empty() {
            return Ok(Bytes::from(b));
        }
    }
    let pid = std::process::id();
    let c = dir.join(format!("{key:016x}.{pid}.c"));
    let tmp = dir.join(format!("{key:016x}.{pid}.tmp"));
    std::fs::write(&c, src).map_err(|e| e.to_string())?;
    let mut cmd = std::process::Command::new("clang");
    if vm == 0 {
        // VM version 0 marks whole pages by segment: keep code and data on separate pages
        cmd.arg("-Wl,-z,separate-loadable-segments");
    } else if ultra {
        cmd.arg("-Wl,--no-rosegment");
    }
    let out = cmd
        .args([
            "--target=riscv64-unknown-elf",
            &format!("-march={march}"),
            "-nostdlib",
            "-static",
            "-fuse-ld=lld",
            "-O1",
            "-fno-builtin",
            "-ffreestanding",
            "-Wl,--build-id=none",
            "-Wl,-s",
            "-w",
            "-o",
        ])
        .arg(&tmp)
        .arg(&c)
        .output()
        .map_err(|e| format!("clang: {e}"))?;
    let _ = std::fs::remove_file(&c);
    if !out.status.success() {
        return Err(format!(
            "clang failed: {}\n{}",
            String::from_utf8_lossy(&out.stderr),
            src
        ));
    }
    let b = std::fs::read(&tmp).map_err(|e| e.to_string())?;
    let _ = std::fs::rename(&tmp, &elf);
    Ok(Bytes::from(b))
}

#[derive(Clone, Debug, Serialize, Deserialize, Hash)]
pub struct ScriptSpec {
    pub prog: u8,
    pub args: Vec<u8>,
    pub by_type: bool,
}

#[derive(Clone, Debug, Serialize, Deserialize, Hash)]
pub struct GenTx {
    pub progs: Vec<Prog>,
    pub inputs: Vec<(ScriptSpec, Option<ScriptSpec>, u16)>,
    pub outputs: Vec<(Option<ScriptSpec>, u16)>,
    pub witnesses: Vec<(u16, u8)>,
    pub dep_data: (u16, u8),
    pub type_id: bool,
    pub lazy: bool,
    pub with_header: bool,
}

pub fn build_gen(g: &GenTx, vm: u8, level: u8) -> Result<Built, String> {
    // dep layout: [prog0, data cell, prog1, ...]
    let mut deps = vec![];
    let mut dep_of_prog = vec![];
    for (i, p) in g.progs.iter().enumerate() {
        let dep = if i == 0 { 0 } else { i + 1 };
        dep_of_prog.push(dep);
        let elf = compile(&p.render(dep, vm), vm, p.ultra)?;
        if i == 1 {
            // placeholder so far; the data cell sits at index 1
        }
        deps.push((dep, elf));
    }
    let mut dep_cells: Vec<Bytes> = vec![];
    dep_cells.push(deps[0].1.clone());
    dep_cells.push(Bytes::from(prng_bytes(g.dep_data.0 as usize, g.dep_data.1 as u64 + 77)));
    for (_, elf) in deps.iter().skip(1) {
        dep_cells.push(elf.clone());
    }
    let np = g.progs.len();
    let sref = |s: &ScriptSpec| -> ScriptRef {
        let pi = s.prog as usize % np;
        ScriptRef {
            dep: dep_of_prog[pi],
            args: s.args.clone(),
            // referencing by type hash selects the newest enabled VM: only equal to `vm` when the
            // environment level is exactly vm
            by_type: s.by_type && level == vm,
            vm,
        }
    };
    let plan = TxPlan {
        deps: dep_cells,
        inputs: g
            .inputs
            .iter()
            .enumerate()
            .map(|(i, (l, t, d))| {
                (
                    sref(l),
                    t.as_ref().map(&sref),
                    Bytes::from(prng_bytes(*d as usize, i as u64 + 5)),
                )
            })
            .collect(),
        outputs: g
            .outputs
            .iter()
            .enumerate()
            .map(|(i, (t, d))| (t.as_ref().map(&sref), Bytes::from(prng_bytes(*d as usize, i as u64 + 50))))
            .collect(),
        witnesses: g
            .witnesses
            .iter()
            .map(|(l, s)| Bytes::from(prng_bytes(*l as usize, *s as u64 + 1000)))
            .collect(),
        type_id: g.type_id,
        lazy: g.lazy,
        with_header: g.with_header,
    };
    let sys: u64 = g.progs.iter().map(|p| p.count_syscalls()).sum();
    let multi = g.progs.iter().any(|p| p.procs.len() > 1) && vm == 2;
    let partial_code_load = g.progs.iter().any(|p| {
        p.all_stmts().iter().any(|s| {
            uses(s, &|s| match s {
                Stmt::LoadCode { page, npages, csize, .. } => {
                    let page = *page as usize % CODE_PAGES;
                    let np = (*npages as usize % (CODE_PAGES - page)) + 1;
                    ((*csize as usize * 4) % (np * 4096 + 1)) != np * 4096
                }
                _ => false,
            })
        })
    });
    Ok(Built {
        partial_code_load,
        asm: assemble(&plan),
        level,
        desc: format!(
            "gen[progs={},procs={},syscalls~{}]@vm{vm}",
            np,
            g.progs.iter().map(|p| p.procs.len()).sum::<usize>(),
            sys
        ),
        syscall_heavy: sys >= 8,
        multi_vm: multi,
    })
}
