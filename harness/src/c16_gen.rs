//! C16 generators: valid protocol messages built with the packed builders from generated
//! headers / transactions / blocks, structure-aware mutations, frames with valid / invalid snappy.
use crate::c16_bytes::{COMPRESSION_SIZE_THRESHOLD, MAX_UNCOMPRESSED_LEN, make_bundle};
use crate::common::pick_idx;
use ckb_types::{bytes::Bytes, core, packed, prelude::*};
use proptest::prelude::*;
use serde::{Deserialize, Serialize};
use std::collections::HashSet;

pub mod hexbytes {
    use serde::{Deserialize, Deserializer, Serializer};
    pub fn serialize<S: Serializer>(v: &Vec<u8>, s: S) -> Result<S::Ok, S::Error> {
        s.serialize_str(&crate::common::hex(v))
    }
    pub fn deserialize<'de, D: Deserializer<'de>>(d: D) -> Result<Vec<u8>, D::Error> {
        let s = String::deserialize(d)?;
        if s.len() % 2 != 0 {
            return Err(serde::de::Error::custom("odd hex length"));
        }
        (0..s.len() / 2)
            .map(|i| u8::from_str_radix(&s[2 * i..2 * i + 2], 16).map_err(serde::de::Error::custom))
            .collect()
    }
}

/// One byte-level case.  `Raw` carries the exact bytes given to the target; `BigCompressed` is a
/// recipe (expanded at execution time) for a frame whose snappy payload decompresses to `n` bytes,
/// used around the 8 MiB bound.
#[derive(Clone, Debug, Serialize, Deserialize)]
pub enum ByteCase {
    Raw {
        origin: String,
        #[serde(with = "hexbytes")]
        data: Vec<u8>,
    },
    BigCompressed {
        n: u32,
        fill: u8,
        /// wrap in a length-delimited frame (codec path) instead of the bare legacy message
        framed: bool,
    },
}

impl ByteCase {
    pub fn origin(&self) -> String {
        match self {
            ByteCase::Raw { origin, .. } => origin.clone(),
            ByteCase::BigCompressed { n, framed, .. } => {
                let rel = match (*n as usize).cmp(&MAX_UNCOMPRESSED_LEN) {
                    std::cmp::Ordering::Less => "below",
                    std::cmp::Ordering::Equal => "at",
                    std::cmp::Ordering::Greater => "above",
                };
                format!("frame:big-compressed:{rel}-bound:{}", if *framed { "framed" } else { "bare" })
            }
        }
    }
    pub fn bytes(&self) -> Vec<u8> {
        match self {
            ByteCase::Raw { data, .. } => data.clone(),
            ByteCase::BigCompressed { n, fill, framed } => {
                let plain: Vec<u8> = (0..*n as usize)
                    .map(|i| if i % 61 == 0 { (i / 61) as u8 } else { *fill })
                    .collect();
                let comp = snap::raw::Encoder::new().compress_vec(&plain).expect("snappy");
                let mut v = Vec::with_capacity(comp.len() + 5);
                if *framed {
                    v.extend_from_slice(&((comp.len() + 1) as u32).to_be_bytes());
                }
                v.push(0x80);
                v.extend_from_slice(&comp);
                v
            }
        }
    }
}

// ------------------------------------------------------------------------------------------------
// parts

fn b32() -> impl Strategy<Value = packed::Byte32> {
    prop_oneof![
        4 => any::<[u8; 32]>().prop_map(packed::Byte32::new),
        1 => Just(packed::Byte32::zero()),
        1 => Just(packed::Byte32::max_value()),
    ]
}

fn short_id() -> impl Strategy<Value = packed::ProposalShortId> {
    any::<[u8; 10]>().prop_map(packed::ProposalShortId::new)
}

fn small_bytes(max: usize) -> impl Strategy<Value = Vec<u8>> {
    prop_oneof![
        3 => proptest::collection::vec(any::<u8>(), 0..=max.min(8)),
        2 => proptest::collection::vec(any::<u8>(), 0..=max),
        1 => (any::<u8>(), 0..=max).prop_map(|(b, n)| vec![b; n]),
    ]
}

fn hash_type() -> impl Strategy<Value = u8> {
    prop_oneof![
        6 => prop_oneof![Just(0u8), Just(1u8), Just(2u8), Just(4u8)],
        2 => (0u8..128).prop_map(|v| v << 1),
        2 => any::<u8>(),
    ]
}

fn script() -> impl Strategy<Value = packed::Script> {
    (b32(), hash_type(), small_bytes(40)).prop_map(|(c, h, a)| {
        packed::Script::new_builder()
            .code_hash(c)
            .hash_type(packed::Byte::new(h))
            .args(packed::Bytes::from(a.as_slice()))
            .build()
    })
}

fn capacity() -> impl Strategy<Value = u64> {
    prop_oneof![
        3 => 0u64..1_000_000_000_000,
        1 => any::<u64>(),
        1 => Just(u64::MAX),
    ]
}

fn cell_output() -> impl Strategy<Value = packed::CellOutput> {
    (capacity(), script(), proptest::option::weighted(0.3, script())).prop_map(|(c, l, t)| {
        packed::CellOutput::new_builder()
            .capacity(c)
            .lock(l)
            .type_(packed::ScriptOpt::new_builder().set(t).build())
            .build()
    })
}

fn out_point() -> impl Strategy<Value = packed::OutPoint> {
    prop_oneof![
        5 => (b32(), 0u32..4).prop_map(|(h, i)| packed::OutPoint::new(h, i)),
        1 => (b32(), any::<u32>()).prop_map(|(h, i)| packed::OutPoint::new(h, i)),
        1 => Just(packed::OutPoint::null()),
    ]
}

fn cell_dep() -> impl Strategy<Value = packed::CellDep> {
    (out_point(), prop_oneof![4 => 0u8..2, 1 => any::<u8>()]).prop_map(|(o, d)| {
        packed::CellDep::new_builder()
            .out_point(o)
            .dep_type(packed::Byte::new(d))
            .build()
    })
}

fn cell_input() -> impl Strategy<Value = packed::CellInput> {
    (out_point(), prop_oneof![3 => Just(0u64), 1 => any::<u64>()])
        .prop_map(|(o, s)| packed::CellInput::new(o, s))
}

#[derive(Clone, Debug)]
pub struct TxParts {
    pub tx: packed::Transaction,
}

pub fn transaction() -> impl Strategy<Value = packed::Transaction> {
    (
        prop_oneof![6 => Just(0u32), 1 => any::<u32>()],
        proptest::collection::vec(cell_dep(), 0..3),
        proptest::collection::vec(b32(), 0..3),
        proptest::collection::vec(cell_input(), 0..4),
        proptest::collection::vec((cell_output(), small_bytes(48)), 0..4),
        // outputs_data length delta (0 = matches outputs)
        prop_oneof![8 => Just(0i8), 1 => Just(-1i8), 1 => Just(1i8)],
        proptest::collection::vec(small_bytes(80), 0..4),
    )
        .prop_map(|(version, deps, hdeps, inputs, outs, delta, wits)| {
            let (outputs, mut data): (Vec<_>, Vec<_>) = outs.into_iter().unzip();
            if delta < 0 {
                data.pop();
            } else if delta > 0 {
                data.push(vec![1, 2, 3]);
            }
            let raw = packed::RawTransaction::new_builder()
                .version(version)
                .cell_deps(deps)
                .header_deps(hdeps)
                .inputs(inputs)
                .outputs(outputs)
                .outputs_data(
                    data.iter()
                        .map(|d| packed::Bytes::from(d.as_slice()))
                        .collect::<Vec<_>>(),
                )
                .build();
            packed::Transaction::new_builder()
                .raw(raw)
                .witnesses(
                    wits.iter()
                        .map(|d| packed::Bytes::from(d.as_slice()))
                        .collect::<Vec<_>>(),
                )
                .build()
        })
}

/// a cellbase-shaped transaction for block `number`
fn cellbase(number: u64) -> impl Strategy<Value = packed::Transaction> {
    (
        proptest::option::weighted(0.9, (capacity(), script())),
        prop_oneof![
            4 => script().prop_map(|s| {
                packed::CellbaseWitness::new_builder().lock(s).build().as_bytes().to_vec()
            }),
            1 => small_bytes(60),
        ],
        prop_oneof![8 => Just(0i64), 1 => -1i64..2],
    )
        .prop_map(move |(out, wit, dn)| {
            let mut raw = packed::RawTransaction::new_builder().inputs(vec![
                packed::CellInput::new_cellbase_input(number.wrapping_add_signed(dn)),
            ]);
            if let Some((c, l)) = out {
                raw = raw
                    .outputs(vec![
                        packed::CellOutput::new_builder().capacity(c).lock(l).build(),
                    ])
                    .outputs_data(vec![packed::Bytes::default()]);
            }
            packed::Transaction::new_builder()
                .raw(raw.build())
                .witnesses(vec![packed::Bytes::from(wit.as_slice())])
                .build()
        })
}

fn epoch_value() -> impl Strategy<Value = u64> {
    prop_oneof![
        4 => (0u64..2000, 0u64..1800, 1u64..1800).prop_map(|(n, i, l)| {
            core::EpochNumberWithFraction::new(n, i % l, l).full_value()
        }),
        1 => Just(0u64),
        2 => any::<u64>(),
    ]
}

fn compact_target() -> impl Strategy<Value = u32> {
    prop_oneof![
        3 => Just(0x2080_0000u32),
        2 => Just(0x1e01_5555u32),
        1 => Just(0u32),
        3 => any::<u32>(),
    ]
}

pub fn header() -> impl Strategy<Value = packed::Header> {
    (
        (
            prop_oneof![6 => Just(0u32), 1 => any::<u32>()],
            compact_target(),
            prop_oneof![4 => 0u64..2_000_000_000_000, 1 => any::<u64>()],
            prop_oneof![1 => Just(0u64), 6 => 1u64..100_000, 1 => any::<u64>()],
            epoch_value(),
        ),
        (b32(), b32(), b32(), b32(), b32(), any::<u128>()),
    )
        .prop_map(|((v, ct, ts, n, e), (p, tr, ph, eh, dao, nonce))| {
            let raw = packed::RawHeader::new_builder()
                .version(v)
                .compact_target(ct)
                .timestamp(ts)
                .number(n)
                .epoch(e)
                .parent_hash(p)
                .transactions_root(tr)
                .proposals_hash(ph)
                .extra_hash(eh)
                .dao(dao)
                .build();
            packed::Header::new_builder().raw(raw).nonce(nonce).build()
        })
}

pub fn uncle() -> impl Strategy<Value = packed::UncleBlock> {
    (header(), proptest::collection::vec(short_id(), 0..4), any::<bool>()).prop_map(
        |(h, props, consistent)| {
            let u = packed::UncleBlock::new_builder()
                .header(h)
                .proposals(props)
                .build();
            if consistent {
                let ph = u.as_reader().calc_proposals_hash();
                let raw = u.header().raw().as_builder().proposals_hash(ph).build();
                u.clone()
                    .as_builder()
                    .header(u.header().as_builder().raw(raw).build())
                    .build()
            } else {
                u
            }
        },
    )
}

/// appends one extra field (arbitrary bytes) to a molecule table, keeping the framing well-formed
pub fn add_extra_field(table: &[u8], extra: &[u8]) -> Vec<u8> {
    if table.len() < 4 {
        return table.to_vec();
    }
    let total = u32::from_le_bytes(table[0..4].try_into().unwrap()) as usize;
    if total != table.len() {
        return table.to_vec();
    }
    let (n, body_start) = if total == 4 {
        (0usize, 4usize)
    } else {
        if total < 8 {
            return table.to_vec();
        }
        let first = u32::from_le_bytes(table[4..8].try_into().unwrap()) as usize;
        if first < 8 || first % 4 != 0 || first > total {
            return table.to_vec();
        }
        (first / 4 - 1, first)
    };
    let mut out = Vec::with_capacity(total + 4 + extra.len());
    out.extend_from_slice(&((total + 4 + extra.len()) as u32).to_le_bytes());
    for k in 0..n {
        let o = u32::from_le_bytes(table[4 + 4 * k..8 + 4 * k].try_into().unwrap());
        out.extend_from_slice(&o.wrapping_add(4).to_le_bytes());
    }
    out.extend_from_slice(&((total + 4) as u32).to_le_bytes());
    out.extend_from_slice(&table[body_start..]);
    out.extend_from_slice(extra);
    out
}

/// what is put behind the declared fields of a Block / CompactBlock
#[derive(Clone, Debug)]
pub enum ExtraSpec {
    None,
    /// a well-formed `Bytes` (the block extension of RFC 0031/0044)
    Extension(Vec<u8>),
    /// one extra field whose content is arbitrary (not necessarily a `Bytes`)
    RawField(Vec<u8>),
    /// two extra fields (handlers reject "too many fields")
    TwoFields(Vec<u8>, Vec<u8>),
}

fn extra_spec() -> impl Strategy<Value = ExtraSpec> {
    prop_oneof![
        5 => Just(ExtraSpec::None),
        3 => small_bytes(96).prop_map(ExtraSpec::Extension),
        2 => small_bytes(12).prop_map(ExtraSpec::RawField),
        1 => (small_bytes(12), small_bytes(12)).prop_map(|(a, b)| ExtraSpec::TwoFields(a, b)),
    ]
}

fn apply_extra(table: &[u8], e: &ExtraSpec) -> Vec<u8> {
    match e {
        ExtraSpec::None => table.to_vec(),
        ExtraSpec::Extension(b) => {
            add_extra_field(table, packed::Bytes::from(b.as_slice()).as_slice())
        }
        ExtraSpec::RawField(b) => add_extra_field(table, b),
        ExtraSpec::TwoFields(a, b) => add_extra_field(&add_extra_field(table, a), b),
    }
}

#[derive(Clone, Debug)]
pub struct GenBlock {
    pub block: packed::Block,
    pub extra: ExtraSpec,
}

pub fn block() -> impl Strategy<Value = GenBlock> {
    header()
        .prop_flat_map(|h| {
            let number: u64 = h.raw().number().into();
            (
                Just(h),
                proptest::collection::vec(uncle(), 0..3),
                proptest::option::weighted(0.85, cellbase(number)),
                proptest::collection::vec(transaction(), 0..4),
                proptest::collection::vec(short_id(), 0..5),
                extra_spec(),
                // make the header consistent with the body (verifiers go deeper)
                prop_oneof![3 => Just(true), 1 => Just(false)],
                // duplicate a transaction / proposal
                prop_oneof![8 => Just(0u8), 1 => Just(1u8), 1 => Just(2u8)],
            )
        })
        .prop_map(|(h, uncles, cb, mut txs, mut props, extra, consistent, dup)| {
            if let Some(cb) = cb {
                txs.insert(0, cb);
            }
            if dup == 1 && !txs.is_empty() {
                txs.push(txs[txs.len() - 1].clone());
            }
            if dup == 2 && !props.is_empty() {
                props.push(props[0].clone());
            }
            let b = packed::Block::new_builder()
                .header(h)
                .uncles(uncles)
                .transactions(txs)
                .proposals(props)
                .build();
            let bytes = apply_extra(b.as_slice(), &extra);
            let mut b = packed::Block::new_unchecked(Bytes::from(bytes));
            if consistent && !matches!(extra, ExtraSpec::RawField(_) | ExtraSpec::TwoFields(..)) {
                b = b.reset_header();
            }
            GenBlock { block: b, extra }
        })
}

// ------------------------------------------------------------------------------------------------
// messages

fn relay_msg(u: impl Into<packed::RelayMessageUnion>) -> Vec<u8> {
    packed::RelayMessage::new_builder().set(u).build().as_slice().to_vec()
}
fn sync_msg(u: impl Into<packed::SyncMessageUnion>) -> Vec<u8> {
    packed::SyncMessage::new_builder().set(u).build().as_slice().to_vec()
}
fn lc_msg(u: impl Into<packed::LightClientMessageUnion>) -> Vec<u8> {
    packed::LightClientMessage::new_builder().set(u).build().as_slice().to_vec()
}
fn filter_msg(u: impl Into<packed::BlockFilterMessageUnion>) -> Vec<u8> {
    packed::BlockFilterMessage::new_builder().set(u).build().as_slice().to_vec()
}

type Msg = (String, Vec<u8>);

/// a compact block of `gb` with the given prefilled selector bits, optionally tampered
fn compact_of(gb: &GenBlock, prefill_bits: u32, tamper: u8, extra: &ExtraSpec) -> packed::CompactBlock {
    // the declared fields only (a raw extra field would make `Block::extension()` panic here)
    let view = gb.block.clone().as_builder().build().into_view_without_reset_header();
    let n = view.transactions().len();
    let prefilled: HashSet<usize> = (1..n).filter(|i| prefill_bits >> (i % 32) & 1 == 1).collect();
    let cb = if n == 0 {
        // build_from_block assumes a cellbase; build by hand
        packed::CompactBlock::new_builder()
            .header(view.data().header())
            .uncles(view.uncle_hashes().clone())
            .proposals(view.data().proposals())
            .build()
    } else {
        packed::CompactBlock::build_from_block(&view, &prefilled)
    };
    let cb = match tamper {
        // duplicate a short id
        1 if !cb.short_ids().is_empty() => {
            let mut ids: Vec<_> = cb.short_ids().into_iter().collect();
            ids.push(ids[0].clone());
            cb.as_builder().short_ids(ids).build()
        }
        // swap two prefilled (out of order) / shift an index out of range
        2 if cb.prefilled_transactions().len() >= 2 => {
            let mut p: Vec<_> = cb.prefilled_transactions().into_iter().collect();
            let l = p.len();
            p.swap(l - 1, l - 2);
            cb.as_builder().prefilled_transactions(p).build()
        }
        3 if !cb.prefilled_transactions().is_empty() => {
            let mut p: Vec<_> = cb.prefilled_transactions().into_iter().collect();
            let l = p.len();
            let total = cb.txs_len();
            p[l - 1] = p[l - 1]
                .clone()
                .as_builder()
                .index(total + (prefill_bits as usize % 3))
                .build();
            cb.as_builder().prefilled_transactions(p).build()
        }
        // no cellbase prefilled
        4 if !cb.prefilled_transactions().is_empty() => {
            let p: Vec<_> = cb.prefilled_transactions().into_iter().skip(1).collect();
            cb.as_builder().prefilled_transactions(p).build()
        }
        // a prefilled (non-cellbase) transaction also listed as short id
        5 if cb.prefilled_transactions().len() >= 2 => {
            let last = cb.prefilled_transactions().into_iter().last().unwrap();
            let mut ids: Vec<_> = cb.short_ids().into_iter().collect();
            ids.push(last.transaction().proposal_short_id());
            cb.as_builder().short_ids(ids).build()
        }
        _ => cb,
    };
    packed::CompactBlock::new_unchecked(Bytes::from(apply_extra(cb.as_slice(), extra)))
}

fn block_transactions_of(gb: &GenBlock, cb: &packed::CompactBlock, style: u8) -> packed::BlockTransactions {
    let view = gb.block.clone().as_builder().build().into_view_without_reset_header();
    let txs = view.transactions();
    let mut want: Vec<packed::Transaction> = cb
        .short_id_indexes()
        .into_iter()
        .filter_map(|i| txs.get(i).map(|t| t.data()))
        .collect();
    let mut uncles: Vec<packed::UncleBlock> = view.data().uncles().into_iter().collect();
    match style {
        1 => {
            want.pop();
        }
        2 => {
            uncles.pop();
        }
        3 => {
            want.reverse();
        }
        4 => {
            uncles.reverse();
        }
        5 if !want.is_empty() => {
            // same hash, different witness
            let t = want[0].clone();
            want[0] = t
                .clone()
                .as_builder()
                .witnesses(vec![packed::Bytes::from(&b"twin"[..])])
                .build();
        }
        6 => {
            uncles.clear();
        }
        _ => {}
    }
    packed::BlockTransactions::new_builder()
        .block_hash(cb.calc_header_hash())
        .transactions(want)
        .uncles(uncles)
        .build()
}

fn verifiable_header() -> impl Strategy<Value = packed::VerifiableHeader> {
    (
        header(),
        b32(),
        proptest::option::weighted(0.6, small_bytes(80)),
        header_digest(),
        any::<bool>(),
    )
        .prop_map(|(h, uh, ext, digest, consistent)| {
            let mut ext = ext;
            if consistent {
                // extension starting with the chain root hash, extra_hash matching
                let mut e = digest.calc_mmr_hash().as_slice().to_vec();
                e.extend_from_slice(ext.as_deref().unwrap_or(&[]));
                ext = Some(e);
            }
            let ext_p = ext.as_ref().map(|e| packed::Bytes::from(e.as_slice()));
            let mut h = h;
            if consistent {
                let eh = core::ExtraHashView::new(
                    uh.clone(),
                    ext_p.as_ref().map(|e| e.calc_raw_data_hash()),
                )
                .extra_hash();
                let raw = h.raw().as_builder().extra_hash(eh).build();
                h = h.as_builder().raw(raw).build();
            }
            packed::VerifiableHeader::new_builder()
                .header(h)
                .uncles_hash(uh)
                .extension(packed::BytesOpt::new_builder().set(ext_p).build())
                .parent_chain_root(digest)
                .build()
        })
}

fn header_digest() -> impl Strategy<Value = packed::HeaderDigest> {
    prop_oneof![
        1 => Just(packed::HeaderDigest::default()),
        4 => (b32(), any::<[u8; 32]>(), any::<[u64; 6]>(), any::<[u32; 2]>()).prop_map(|(c, td, n, t)| {
            packed::HeaderDigest::new_builder()
                .children_hash(c)
                .total_difficulty(packed::Uint256::from_slice(&td).unwrap())
                .start_number(n[0])
                .end_number(n[1])
                .start_epoch(n[2])
                .end_epoch(n[3])
                .start_timestamp(n[4])
                .end_timestamp(n[5])
                .start_compact_target(t[0])
                .end_compact_target(t[1])
                .build()
        }),
    ]
}

fn b32vec(max: usize) -> impl Strategy<Value = Vec<packed::Byte32>> {
    proptest::collection::vec(b32(), 0..=max)
}

fn filtered_block() -> impl Strategy<Value = packed::FilteredBlock> {
    (
        header(),
        b32(),
        proptest::collection::vec(transaction(), 0..3),
        proptest::collection::vec(any::<u32>(), 0..4),
        b32vec(4),
    )
        .prop_map(|(h, wr, txs, idx, lemmas)| {
            packed::FilteredBlock::new_builder()
                .header(h)
                .witnesses_root(wr)
                .transactions(txs)
                .proof(
                    packed::MerkleProof::new_builder()
                        .indices(idx)
                        .lemmas(lemmas)
                        .build(),
                )
                .build()
        })
}

fn u256() -> impl Strategy<Value = packed::Uint256> {
    any::<[u8; 32]>().prop_map(|b| packed::Uint256::from_slice(&b).unwrap())
}

fn multiaddr_bytes() -> impl Strategy<Value = Vec<u8>> {
    prop_oneof![
        3 => (any::<[u8; 4]>(), any::<u16>()).prop_map(|(ip, port)| {
            // /ip4/a.b.c.d/tcp/port
            let mut v = vec![0x04];
            v.extend_from_slice(&ip);
            v.push(0x06);
            v.extend_from_slice(&port.to_be_bytes());
            v
        }),
        1 => (any::<[u8; 16]>(), any::<u16>(), any::<[u8; 32]>()).prop_map(|(ip, port, id)| {
            // /ip6/../tcp/port/p2p/<sha256 multihash>
            let mut v = vec![0x29];
            v.extend_from_slice(&ip);
            v.push(0x06);
            v.extend_from_slice(&port.to_be_bytes());
            v.extend_from_slice(&[0xa5, 0x03, 34, 0x12, 0x20]);
            v.extend_from_slice(&id);
            v
        }),
        2 => small_bytes(40),
    ]
}

fn bytes_vec(items: Vec<Vec<u8>>) -> packed::BytesVec {
    packed::BytesVec::new_builder()
        .set(items.iter().map(|b| packed::Bytes::from(b.as_slice())).collect())
        .build()
}

fn address_vec(items: Vec<Vec<u8>>) -> packed::AddressVec {
    packed::AddressVec::new_builder()
        .set(
            items
                .iter()
                .map(|b| {
                    packed::Address::new_builder()
                        .bytes(packed::Bytes::from(b.as_slice()))
                        .build()
                })
                .collect(),
        )
        .build()
}

fn u32_le(v: u32) -> packed::Uint32 {
    packed::Uint32::from_slice(&v.to_le_bytes()).unwrap()
}

/// every kind of valid message; each arm yields (origin label, bytes)
pub fn valid_message() -> BoxedStrategy<Msg> {
    let sync = prop_oneof![
        1 => (b32(), b32vec(6)).prop_map(|(stop, loc)| {
            (
                "sync:GetHeaders".to_string(),
                sync_msg(
                    packed::GetHeaders::new_builder()
                        .hash_stop(stop)
                        .block_locator_hashes(loc)
                        .build(),
                ),
            )
        }),
        1 => proptest::collection::vec(header(), 0..5).prop_map(|hs| {
            (
                "sync:SendHeaders".to_string(),
                sync_msg(packed::SendHeaders::new_builder().headers(hs).build()),
            )
        }),
        1 => b32vec(6).prop_map(|hs| {
            (
                "sync:GetBlocks".to_string(),
                sync_msg(packed::GetBlocks::new_builder().block_hashes(hs).build()),
            )
        }),
        3 => block().prop_map(|gb| {
            let tag = match gb.extra {
                ExtraSpec::None => "plain",
                ExtraSpec::Extension(_) => "extension",
                ExtraSpec::RawField(_) => "raw-extra-field",
                ExtraSpec::TwoFields(..) => "two-extra-fields",
            };
            (
                format!("sync:SendBlock:{tag}"),
                sync_msg(packed::SendBlock::new_builder().block(gb.block).build()),
            )
        }),
        1 => Just(("sync:InIBD".to_string(), sync_msg(packed::InIBD::new_builder().build()))),
    ];
    let relay = prop_oneof![
        3 => (block(), any::<u32>(), prop_oneof![6 => Just(0u8), 3 => 1u8..6], extra_spec()).prop_map(
            |(gb, bits, tamper, extra)| {
                let cb = compact_of(&gb, bits, tamper, &extra);
                let tag = match extra {
                    ExtraSpec::None => "plain",
                    ExtraSpec::Extension(_) => "extension",
                    ExtraSpec::RawField(_) => "raw-extra-field",
                    ExtraSpec::TwoFields(..) => "two-extra-fields",
                };
                (
                    format!("relay:CompactBlock:{tag}:{}", if tamper == 0 { "honest" } else { "tampered" }),
                    relay_msg(cb),
                )
            }
        ),
        1 => proptest::collection::vec((transaction(), any::<u64>()), 0..4).prop_map(|v| {
            let items: Vec<_> = v
                .into_iter()
                .map(|(t, c)| {
                    packed::RelayTransaction::new_builder()
                        .cycles(c)
                        .transaction(t)
                        .build()
                })
                .collect();
            (
                "relay:RelayTransactions".to_string(),
                relay_msg(
                    packed::RelayTransactions::new_builder()
                        .transactions(
                            packed::RelayTransactionVec::new_builder().set(items).build(),
                        )
                        .build(),
                ),
            )
        }),
        1 => b32vec(5).prop_map(|h| {
            (
                "relay:RelayTransactionHashes".to_string(),
                relay_msg(packed::RelayTransactionHashes::new_builder().tx_hashes(h).build()),
            )
        }),
        1 => b32vec(5).prop_map(|h| {
            (
                "relay:GetRelayTransactions".to_string(),
                relay_msg(packed::GetRelayTransactions::new_builder().tx_hashes(h).build()),
            )
        }),
        1 => (b32(), proptest::collection::vec(any::<u32>(), 0..5), proptest::collection::vec(any::<u32>(), 0..3))
            .prop_map(|(h, a, b)| {
                (
                    "relay:GetBlockTransactions".to_string(),
                    relay_msg(
                        packed::GetBlockTransactions::new_builder()
                            .block_hash(h)
                            .indexes(a)
                            .uncle_indexes(b)
                            .build(),
                    ),
                )
            }),
        2 => (b32(), proptest::collection::vec(transaction(), 0..4), proptest::collection::vec(uncle(), 0..3))
            .prop_map(|(h, txs, us)| {
                (
                    "relay:BlockTransactions".to_string(),
                    relay_msg(
                        packed::BlockTransactions::new_builder()
                            .block_hash(h)
                            .transactions(txs)
                            .uncles(us)
                            .build(),
                    ),
                )
            }),
        1 => (b32(), proptest::collection::vec(short_id(), 0..5)).prop_map(|(h, p)| {
            (
                "relay:GetBlockProposal".to_string(),
                relay_msg(
                    packed::GetBlockProposal::new_builder()
                        .block_hash(h)
                        .proposals(p)
                        .build(),
                ),
            )
        }),
        1 => proptest::collection::vec(transaction(), 0..4).prop_map(|t| {
            (
                "relay:BlockProposal".to_string(),
                relay_msg(packed::BlockProposal::new_builder().transactions(t).build()),
            )
        }),
    ];
    let bundle = (
        block(),
        any::<u32>(),
        prop_oneof![8 => Just(0u8), 2 => 1u8..6],
        prop_oneof![4 => Just(0u8), 6 => 1u8..7],
        prop_oneof![
            3 => Just(vec![0xffu8, 0xff, 0xff, 0xff]),
            2 => proptest::collection::vec(any::<u8>(), 0..6),
        ],
        prop_oneof![6 => Just(ExtraSpec::None), 2 => small_bytes(40).prop_map(ExtraSpec::Extension)],
    )
        .prop_map(|(gb, bits, tamper, style, sel, extra)| {
            let cb = compact_of(&gb, bits, tamper, &extra);
            let bt = block_transactions_of(&gb, &cb, style);
            (
                format!(
                    "bundle:{}:{}",
                    if tamper == 0 { "honest-compact" } else { "tampered-compact" },
                    match style {
                        0 => "honest-reply",
                        1 => "fewer-txs",
                        2 | 6 => "fewer-uncles",
                        3 => "reordered-txs",
                        4 => "reordered-uncles",
                        _ => "twin-tx",
                    }
                ),
                make_bundle(&relay_msg(cb), &relay_msg(bt), &sel),
            )
        });
    let lc = prop_oneof![
        any::<bool>().prop_map(|s| {
            (
                "lc:GetLastState".to_string(),
                lc_msg(
                    packed::GetLastState::new_builder()
                        .subscribe(packed::Bool::new_builder().set([packed::Byte::new(s as u8)]).build())
                        .build(),
                ),
            )
        }),
        verifiable_header().prop_map(|h| {
            (
                "lc:SendLastState".to_string(),
                lc_msg(packed::SendLastState::new_builder().last_header(h).build()),
            )
        }),
        (b32(), b32(), any::<u64>(), any::<u64>(), u256(), proptest::collection::vec(u256(), 0..4)).prop_map(
            |(a, b, n, l, d, ds)| {
                (
                    "lc:GetLastStateProof".to_string(),
                    lc_msg(
                        packed::GetLastStateProof::new_builder()
                            .last_hash(a)
                            .start_hash(b)
                            .start_number(n)
                            .last_n_blocks(l)
                            .difficulty_boundary(d)
                            .difficulties(packed::Uint256Vec::new_builder().set(ds).build())
                            .build(),
                    ),
                )
            }
        ),
        (
            verifiable_header(),
            proptest::collection::vec(header_digest(), 0..4),
            proptest::collection::vec(verifiable_header(), 0..3)
        )
            .prop_map(|(h, p, hs)| {
                (
                    "lc:SendLastStateProof".to_string(),
                    lc_msg(
                        packed::SendLastStateProof::new_builder()
                            .last_header(h)
                            .proof(packed::HeaderDigestVec::new_builder().set(p).build())
                            .headers(packed::VerifiableHeaderVec::new_builder().set(hs).build())
                            .build(),
                    ),
                )
            }),
        (b32(), b32vec(4)).prop_map(|(h, hs)| {
            (
                "lc:GetBlocksProof".to_string(),
                lc_msg(
                    packed::GetBlocksProof::new_builder()
                        .last_hash(h)
                        .block_hashes(hs)
                        .build(),
                ),
            )
        }),
        (
            verifiable_header(),
            proptest::collection::vec(header_digest(), 0..3),
            proptest::collection::vec(header(), 0..3),
            b32vec(3),
            proptest::option::weighted(0.5, (b32vec(3), proptest::collection::vec(proptest::option::of(small_bytes(40)), 0..3)))
        )
            .prop_map(|(h, p, hs, miss, v1)| {
                let proof = packed::HeaderDigestVec::new_builder().set(p).build();
                let headers = packed::HeaderVec::new_builder().set(hs).build();
                let bytes = match v1 {
                    None => lc_msg(
                        packed::SendBlocksProof::new_builder()
                            .last_header(h)
                            .proof(proof)
                            .headers(headers)
                            .missing_block_hashes(miss)
                            .build(),
                    ),
                    Some((uh, exts)) => lc_msg(
                        packed::SendBlocksProofV1::new_builder()
                            .last_header(h)
                            .proof(proof)
                            .headers(headers)
                            .missing_block_hashes(miss)
                            .blocks_uncles_hash(uh)
                            .blocks_extension(
                                packed::BytesOptVec::new_builder()
                                    .set(
                                        exts.iter()
                                            .map(|e| {
                                                packed::BytesOpt::new_builder()
                                                    .set(e.as_ref().map(|b| packed::Bytes::from(b.as_slice())))
                                                    .build()
                                            })
                                            .collect(),
                                    )
                                    .build(),
                            )
                            .build(),
                    ),
                };
                ("lc:SendBlocksProof".to_string(), bytes)
            }),
        (b32(), b32vec(4)).prop_map(|(h, hs)| {
            (
                "lc:GetTransactionsProof".to_string(),
                lc_msg(
                    packed::GetTransactionsProof::new_builder()
                        .last_hash(h)
                        .tx_hashes(hs)
                        .build(),
                ),
            )
        }),
        (
            verifiable_header(),
            proptest::collection::vec(header_digest(), 0..3),
            proptest::collection::vec(filtered_block(), 0..3),
            b32vec(3)
        )
            .prop_map(|(h, p, fbs, miss)| {
                (
                    "lc:SendTransactionsProof".to_string(),
                    lc_msg(
                        packed::SendTransactionsProof::new_builder()
                            .last_header(h)
                            .proof(packed::HeaderDigestVec::new_builder().set(p).build())
                            .filtered_blocks(packed::FilteredBlockVec::new_builder().set(fbs).build())
                            .missing_tx_hashes(miss)
                            .build(),
                    ),
                )
            }),
    ];
    let filter = prop_oneof![
        any::<u64>().prop_map(|n| {
            (
                "filter:GetBlockFilters".to_string(),
                filter_msg(packed::GetBlockFilters::new_builder().start_number(n).build()),
            )
        }),
        (any::<u64>(), b32vec(4), proptest::collection::vec(small_bytes(60), 0..4)).prop_map(|(n, hs, fs)| {
            (
                "filter:BlockFilters".to_string(),
                filter_msg(
                    packed::BlockFilters::new_builder()
                        .start_number(n)
                        .block_hashes(hs)
                        .filters(bytes_vec(fs))
                        .build(),
                ),
            )
        }),
        any::<u64>().prop_map(|n| {
            (
                "filter:GetBlockFilterHashes".to_string(),
                filter_msg(packed::GetBlockFilterHashes::new_builder().start_number(n).build()),
            )
        }),
        (any::<u64>(), b32(), b32vec(4)).prop_map(|(n, p, hs)| {
            (
                "filter:BlockFilterHashes".to_string(),
                filter_msg(
                    packed::BlockFilterHashes::new_builder()
                        .start_number(n)
                        .parent_block_filter_hash(p)
                        .block_filter_hashes(hs)
                        .build(),
                ),
            )
        }),
        any::<u64>().prop_map(|n| {
            (
                "filter:GetBlockFilterCheckPoints".to_string(),
                filter_msg(packed::GetBlockFilterCheckPoints::new_builder().start_number(n).build()),
            )
        }),
        (any::<u64>(), b32vec(4)).prop_map(|(n, hs)| {
            (
                "filter:BlockFilterCheckPoints".to_string(),
                filter_msg(
                    packed::BlockFilterCheckPoints::new_builder()
                        .start_number(n)
                        .block_filter_hashes(hs)
                        .build(),
                ),
            )
        }),
    ];
    let small = prop_oneof![
        any::<u64>().prop_map(|t| {
            (
                "time:Time".to_string(),
                packed::Time::new_builder().timestamp(t).build().as_slice().to_vec(),
            )
        }),
        (
            (any::<u64>(), any::<u32>(), any::<u32>(), any::<u32>()),
            prop_oneof![3 => "[ -~]{0,40}".prop_map(|s| s.into_bytes()), 1 => small_bytes(40)],
            proptest::option::of(prop_oneof![3 => "[0-9.]{0,8}".prop_map(|s| s.into_bytes()), 1 => small_bytes(8)]),
            proptest::option::of("[0-9.]{0,8}".prop_map(|s| s.into_bytes())),
            proptest::collection::vec(prop_oneof![2 => proptest::collection::vec(any::<u8>(), 65..=65), 1 => small_bytes(70)], 0..4),
        )
            .prop_map(|((until, id, cancel, prio), msg, minv, maxv, sigs)| {
                let opt = |v: Option<Vec<u8>>| {
                    packed::BytesOpt::new_builder()
                        .set(v.map(|b| packed::Bytes::from(b.as_slice())))
                        .build()
                };
                let raw = packed::RawAlert::new_builder()
                    .notice_until(until)
                    .id(id)
                    .cancel(cancel)
                    .priority(prio)
                    .message(packed::Bytes::from(msg.as_slice()))
                    .min_version(opt(minv))
                    .max_version(opt(maxv))
                    .build();
                (
                    "alert:Alert".to_string(),
                    packed::Alert::new_builder()
                        .raw(raw)
                        .signatures(bytes_vec(sigs))
                        .build()
                        .as_slice()
                        .to_vec(),
                )
            }),
        (any::<bool>(), any::<u32>()).prop_map(|(ping, nonce)| {
            let payload = if ping {
                packed::PingPayload::new_builder()
                    .set(packed::Ping::new_builder().nonce(u32_le(nonce)).build())
                    .build()
            } else {
                packed::PingPayload::new_builder()
                    .set(packed::Pong::new_builder().nonce(u32_le(nonce)).build())
                    .build()
            };
            (
                "ping:PingMessage".to_string(),
                packed::PingMessage::new_builder().payload(payload).build().as_slice().to_vec(),
            )
        }),
        (any::<u32>(), any::<u32>(), proptest::option::of(any::<u16>()), proptest::option::of(any::<u64>())).prop_map(
            |(version, count, port, flags)| {
                let port = packed::PortOpt::new_builder()
                    .set(port.map(|p| packed::Uint16::from_slice(&p.to_le_bytes()).unwrap()))
                    .build();
                let item_bytes = match flags {
                    None => packed::GetNodes::new_builder()
                        .version(u32_le(version))
                        .count(u32_le(count))
                        .listen_port(port)
                        .build()
                        .as_bytes(),
                    Some(f) => packed::GetNodes2::new_builder()
                        .version(u32_le(version))
                        .count(u32_le(count))
                        .listen_port(port)
                        .required_flags(f)
                        .build()
                        .as_bytes(),
                };
                let payload = packed::DiscoveryPayload::new_builder()
                    .set(packed::GetNodes::new_unchecked(item_bytes))
                    .build();
                (
                    "discovery:GetNodes".to_string(),
                    packed::DiscoveryMessage::new_builder().payload(payload).build().as_slice().to_vec(),
                )
            }
        ),
        (
            prop_oneof![4 => 0u8..2, 1 => any::<u8>()],
            proptest::collection::vec((proptest::collection::vec(multiaddr_bytes(), 0..3), proptest::option::of(any::<u64>())), 0..4)
        )
            .prop_map(|(announce, nodes)| {
                let announce = packed::Bool::new_builder().set([packed::Byte::new(announce)]).build();
                let items: Vec<packed::Node> = nodes
                    .into_iter()
                    .map(|(addrs, flags)| match flags {
                        None => packed::Node::new_builder().addresses(bytes_vec(addrs)).build(),
                        Some(f) => packed::Node::new_unchecked(
                            packed::Node2::new_builder()
                                .addresses(bytes_vec(addrs))
                                .flags(f)
                                .build()
                                .as_bytes(),
                        ),
                    })
                    .collect();
                let nodes = packed::Nodes::new_builder()
                    .announce(announce)
                    .items(packed::NodeVec::new_builder().set(items).build())
                    .build();
                let payload = packed::DiscoveryPayload::new_builder().set(nodes).build();
                (
                    "discovery:Nodes".to_string(),
                    packed::DiscoveryMessage::new_builder().payload(payload).build().as_slice().to_vec(),
                )
            }),
        (
            proptest::collection::vec(multiaddr_bytes(), 0..3),
            multiaddr_bytes(),
            (any::<u64>(), prop_oneof![2 => Just(b"ckb".to_vec()), 1 => small_bytes(12)], small_bytes(20)),
            any::<bool>()
        )
            .prop_map(|(listen, observed, (flag, name, ver), bare)| {
                let ident = packed::Identify::new_builder()
                    .flag(flag)
                    .name(packed::Bytes::from(name.as_slice()))
                    .client_version(packed::Bytes::from(ver.as_slice()))
                    .build();
                if bare {
                    return ("identify:Identify".to_string(), ident.as_slice().to_vec());
                }
                (
                    "identify:IdentifyMessage".to_string(),
                    packed::IdentifyMessage::new_builder()
                        .listen_addrs(address_vec(listen))
                        .observed_addr(
                            packed::Address::new_builder()
                                .bytes(packed::Bytes::from(observed.as_slice()))
                                .build(),
                        )
                        .identify(packed::Bytes::from(ident.as_slice()))
                        .build()
                        .as_slice()
                        .to_vec(),
                )
            }),
        (
            0u8..3,
            small_bytes(40),
            small_bytes(40),
            any::<u8>(),
            proptest::collection::vec(small_bytes(40), 0..3),
            proptest::collection::vec(multiaddr_bytes(), 0..3)
        )
            .prop_map(|(kind, from, to, hops, route, addrs)| {
                let f = packed::Bytes::from(from.as_slice());
                let t = packed::Bytes::from(to.as_slice());
                let u: packed::HolePunchingMessageUnion = match kind {
                    0 => packed::ConnectionRequest::new_builder()
                        .from(f)
                        .to(t)
                        .max_hops(packed::Byte::new(hops))
                        .route(bytes_vec(route))
                        .listen_addrs(address_vec(addrs))
                        .build()
                        .into(),
                    1 => packed::ConnectionRequestDelivered::new_builder()
                        .from(f)
                        .to(t)
                        .route(bytes_vec(route.clone()))
                        .sync_route(bytes_vec(route))
                        .listen_addrs(address_vec(addrs))
                        .build()
                        .into(),
                    _ => packed::ConnectionSync::new_builder()
                        .from(f)
                        .to(t)
                        .route(bytes_vec(route))
                        .build()
                        .into(),
                };
                (
                    "holepunching:HolePunchingMessage".to_string(),
                    packed::HolePunchingMessage::new_builder().set(u).build().as_slice().to_vec(),
                )
            }),
    ];
    prop_oneof![
        5 => sync,
        7 => relay,
        4 => bundle,
        4 => lc,
        2 => filter,
        4 => small,
    ]
    .boxed()
}

// ------------------------------------------------------------------------------------------------
// mutations

#[derive(Clone, Debug)]
pub enum Mutn {
    FlipBit(u16, u8),
    SetByte(u16, u8),
    Truncate(u16),
    Append(Vec<u8>),
    /// add / set a little-endian u32 word (molecule sizes and offsets) at a selected position
    TweakWord { pos: u16, aligned: bool, kind: u8, delta: i8 },
    /// copy a range of the message over another place
    Splice { src: u16, len: u8, dst: u16, insert: bool },
    DropRange { at: u16, len: u8 },
    /// append an extra field to the table that starts at offset 4 (the union item) or 0
    ExtraField { at_item: bool, content: Vec<u8> },
}

fn mutn() -> impl Strategy<Value = Mutn> {
    prop_oneof![
        3 => (any::<u16>(), 0u8..8).prop_map(|(p, b)| Mutn::FlipBit(p, b)),
        2 => (any::<u16>(), prop_oneof![Just(0u8), Just(0xffu8), Just(0x80u8), any::<u8>()])
            .prop_map(|(p, b)| Mutn::SetByte(p, b)),
        2 => any::<u16>().prop_map(Mutn::Truncate),
        1 => small_bytes(12).prop_map(Mutn::Append),
        5 => (any::<u16>(), prop_oneof![3 => Just(true), 1 => Just(false)], 0u8..6, -8i8..=8)
            .prop_map(|(pos, aligned, kind, delta)| Mutn::TweakWord { pos, aligned, kind, delta }),
        2 => (any::<u16>(), any::<u8>(), any::<u16>(), any::<bool>())
            .prop_map(|(src, len, dst, insert)| Mutn::Splice { src, len, dst, insert }),
        1 => (any::<u16>(), 1u8..24).prop_map(|(at, len)| Mutn::DropRange { at, len }),
        2 => (any::<bool>(), small_bytes(12)).prop_map(|(at_item, content)| Mutn::ExtraField { at_item, content }),
    ]
}

pub fn apply_mutn(data: &mut Vec<u8>, m: &Mutn) {
    let len = data.len();
    match m {
        Mutn::FlipBit(p, b) => {
            if len > 0 {
                let i = pick_idx(*p as u32, len);
                data[i] ^= 1 << b;
            }
        }
        Mutn::SetByte(p, b) => {
            if len > 0 {
                let i = pick_idx(*p as u32, len);
                data[i] = *b;
            }
        }
        Mutn::Truncate(p) => {
            if len > 0 {
                data.truncate(pick_idx(*p as u32, len));
            }
        }
        Mutn::Append(b) => data.extend_from_slice(b),
        Mutn::TweakWord { pos, aligned, kind, delta } => {
            if len >= 4 {
                let mut i = pick_idx(*pos as u32, len - 3);
                if *aligned {
                    i -= i % 4;
                }
                let old = u32::from_le_bytes(data[i..i + 4].try_into().unwrap());
                let new = match kind {
                    0 | 1 => old.wrapping_add_signed(*delta as i32),
                    2 => old.wrapping_add_signed(*delta as i32 * 4),
                    3 => (len as u32).wrapping_add_signed(*delta as i32),
                    4 => 0,
                    _ => u32::MAX.wrapping_add_signed(-(delta.unsigned_abs() as i32)),
                };
                data[i..i + 4].copy_from_slice(&new.to_le_bytes());
            }
        }
        Mutn::Splice { src, len: l, dst, insert } => {
            if len > 0 {
                let s = pick_idx(*src as u32, len);
                let e = (s + *l as usize).min(len);
                let chunk = data[s..e].to_vec();
                let d = pick_idx(*dst as u32, len);
                if *insert {
                    let tail = data.split_off(d);
                    data.extend_from_slice(&chunk);
                    data.extend_from_slice(&tail);
                } else {
                    for (k, b) in chunk.iter().enumerate() {
                        if d + k < data.len() {
                            data[d + k] = *b;
                        }
                    }
                }
            }
        }
        Mutn::DropRange { at, len: l } => {
            if len > 0 {
                let s = pick_idx(*at as u32, len);
                let e = (s + *l as usize).min(len);
                data.drain(s..e);
            }
        }
        Mutn::ExtraField { at_item, content } => {
            let off = if *at_item { 4 } else { 0 };
            if len > off {
                let t = add_extra_field(&data[off..], content);
                data.truncate(off);
                data.extend_from_slice(&t);
            }
        }
    }
}

fn mutated_message() -> impl Strategy<Value = Msg> {
    (valid_message(), proptest::collection::vec(mutn(), 1..4)).prop_map(|((o, mut d), ms)| {
        for m in &ms {
            apply_mutn(&mut d, m);
        }
        let kind = o.split(':').next().unwrap_or("").to_string();
        (format!("mutated:{kind}"), d)
    })
}

/// cases for the `message` target
pub fn message_case() -> impl Strategy<Value = ByteCase> {
    prop_oneof![
        1 => proptest::collection::vec(any::<u8>(), 0..96).prop_map(|d| ("random".to_string(), d)),
        // a random union id followed by random bytes
        1 => (0u32..10, proptest::collection::vec(any::<u8>(), 0..64)).prop_map(|(id, mut d)| {
            let mut v = id.to_le_bytes().to_vec();
            v.append(&mut d);
            ("random:union-id".to_string(), v)
        }),
        8 => valid_message(),
        10 => mutated_message(),
    ]
    .prop_map(|(origin, data)| ByteCase::Raw { origin, data })
}

// ------------------------------------------------------------------------------------------------
// frames

fn snappy(plain: &[u8]) -> Vec<u8> {
    snap::raw::Encoder::new().compress_vec(plain).expect("snappy")
}

fn varint(mut v: u64) -> Vec<u8> {
    let mut out = vec![];
    loop {
        let b = (v & 0x7f) as u8;
        v >>= 7;
        if v == 0 {
            out.push(b);
            return out;
        }
        out.push(b | 0x80);
    }
}

/// payload of a frame: [flag][body]
fn frame_payload() -> impl Strategy<Value = (String, Vec<u8>)> {
    let body = prop_oneof![
        2 => valid_message().prop_map(|(_, d)| d),
        1 => mutated_message().prop_map(|(_, d)| d),
        1 => proptest::collection::vec(any::<u8>(), 0..64),
        // compressible and longer than the compression threshold
        2 => (any::<u8>(), COMPRESSION_SIZE_THRESHOLD - 8..COMPRESSION_SIZE_THRESHOLD * 3, proptest::collection::vec(any::<u8>(), 0..32))
            .prop_map(|(b, n, tail)| {
                let mut v = vec![b; n];
                v.extend_from_slice(&tail);
                v
            }),
    ];
    (
        body,
        prop_oneof![
            3 => Just(0u8), // uncompressed flag
            4 => Just(1u8), // valid snappy
            2 => Just(2u8), // snappy, then mutated
            2 => Just(3u8), // declared length varint replaced
            1 => Just(4u8), // compress flag + raw body (not snappy)
            1 => Just(5u8), // reserved flag bits set
        ],
        proptest::collection::vec(mutn(), 1..3),
        prop_oneof![
            Just(0u64), Just(1), Just((MAX_UNCOMPRESSED_LEN - 1) as u64), Just(MAX_UNCOMPRESSED_LEN as u64),
            Just(MAX_UNCOMPRESSED_LEN as u64 + 1), Just(u32::MAX as u64), Just(u32::MAX as u64 + 1), any::<u64>(),
            (0u64..4096)
        ],
        any::<u8>(),
    )
        .prop_map(|(body, kind, ms, declared, rsv)| match kind {
            0 => {
                let mut v = vec![0u8];
                v.extend_from_slice(&body);
                ("uncompressed".to_string(), v)
            }
            1 => {
                let mut v = vec![0x80u8];
                v.extend_from_slice(&snappy(&body));
                ("snappy-valid".to_string(), v)
            }
            2 => {
                let mut c = snappy(&body);
                for m in &ms {
                    apply_mutn(&mut c, m);
                }
                let mut v = vec![0x80u8];
                v.extend_from_slice(&c);
                ("snappy-mutated".to_string(), v)
            }
            3 => {
                let c = snappy(&body);
                // strip the real varint, put another declared length
                let mut k = 0;
                while k < c.len() && c[k] & 0x80 != 0 {
                    k += 1;
                }
                let mut v = vec![0x80u8];
                v.extend_from_slice(&varint(declared));
                v.extend_from_slice(&c[(k + 1).min(c.len())..]);
                ("snappy-declared-length-replaced".to_string(), v)
            }
            4 => {
                let mut v = vec![0x80u8];
                v.extend_from_slice(&body);
                ("compress-flag-raw-body".to_string(), v)
            }
            _ => {
                let mut v = vec![rsv];
                v.extend_from_slice(&snappy(&body));
                ("reserved-flag-bits".to_string(), v)
            }
        })
}

/// cases for the `frame` target
pub fn frame_case() -> impl Strategy<Value = ByteCase> {
    let framed = (
        proptest::collection::vec(frame_payload(), 1..4),
        // length-prefix handling of the last frame: exact, short, long, huge, partial
        prop_oneof![6 => Just(0u8), 1 => Just(1u8), 1 => Just(2u8), 1 => Just(3u8), 1 => Just(4u8)],
    )
        .prop_map(|(payloads, lenkind)| {
            let mut v = vec![];
            let n = payloads.len();
            let mut origin = String::from("frame:stream");
            for (i, (o, p)) in payloads.into_iter().enumerate() {
                let mut l = p.len() as u32;
                let mut body = p;
                if i + 1 == n {
                    match lenkind {
                        1 => l = l.saturating_sub(1),
                        2 => l += 3,
                        3 => l = 0x7fff_fff0,
                        4 => {
                            let keep = body.len() / 2;
                            body.truncate(keep);
                        }
                        _ => {}
                    }
                    origin = format!("frame:stream:{o}:len-{}", ["exact", "short", "long", "huge", "partial"][lenkind as usize]);
                }
                v.extend_from_slice(&l.to_be_bytes());
                v.extend_from_slice(&body);
            }
            (origin, v)
        });
    prop_oneof![
        6 => proptest::collection::vec(any::<u8>(), 0..64).prop_map(|d| ByteCase::Raw { origin: "frame:random".into(), data: d }),
        18 => frame_payload().prop_map(|(o, d)| ByteCase::Raw { origin: format!("frame:bare:{o}"), data: d }),
        24 => framed.prop_map(|(o, d)| ByteCase::Raw { origin: o, data: d }),
        // around the 8 MiB bound (expensive: rare)
        1 => (
            prop_oneof![
                Just(MAX_UNCOMPRESSED_LEN as u32 - 1), Just(MAX_UNCOMPRESSED_LEN as u32), Just(MAX_UNCOMPRESSED_LEN as u32 + 1),
                (MAX_UNCOMPRESSED_LEN as u32 - 4096..MAX_UNCOMPRESSED_LEN as u32 + 4096),
                (1u32 << 20..3u32 << 22)
            ],
            any::<u8>(),
            any::<bool>()
        )
            .prop_map(|(n, fill, framed)| ByteCase::BigCompressed { n, fill, framed }),
    ]
}

/// small seed corpus for the libFuzzer targets: (target, name, bytes)
pub fn seed_corpus(seed: u64, per_target: usize) -> Vec<(&'static str, String, Vec<u8>)> {
    use proptest::strategy::ValueTree;
    use proptest::test_runner::{Config, RngSeed, TestRunner};
    let mut out = vec![];
    let mut runner = TestRunner::new(Config {
        failure_persistence: None,
        rng_seed: RngSeed::Fixed(seed),
        ..Config::default()
    });
    let vm = valid_message();
    for i in 0..per_target {
        let (o, d) = vm.new_tree(&mut runner).unwrap().current();
        out.push(("message", format!("{i:03}-{}", o.replace(':', "_")), d));
    }
    let fc = frame_case();
    let mut i = 0;
    while i < per_target {
        if let ByteCase::Raw { origin, data } = fc.new_tree(&mut runner).unwrap().current() {
            out.push(("frame", format!("{i:03}-{}", origin.replace(':', "_")), data));
            i += 1;
        }
    }
    // one frame just above and one just below the decompression bound
    for (n, name) in [
        (MAX_UNCOMPRESSED_LEN as u32 + 1, "big-above-bound"),
        (MAX_UNCOMPRESSED_LEN as u32, "big-at-bound"),
    ] {
        out.push(("frame", name.to_string(), ByteCase::BigCompressed { n, fill: 0, framed: false }.bytes()));
    }
    out
}
