//! Independent proof-of-work reference (C03 `pow` family).
//!
//! Nothing here calls `ckb-pow`, `compact_to_target` or `calc_pow_hash`:
//! * the 192 bytes of the header without its nonce are assembled by hand from the header fields
//!   (RFC 0027: version, compact_target, timestamp, number, epoch little-endian, then parent_hash,
//!   transactions_root, proposals_hash, extra_hash, dao);
//! * pow_hash = blake2b-256 ("ckb-default-hash") of those bytes, pow_message = pow_hash ‖ nonce (LE, 16
//!   bytes), output = eaglesong(pow_message) [RFC 0010], for the second engine blake2b-256 of that;
//! * target = mantissa * 256^(exponent-3) as a big-endian 256-bit number; a zero target or a non-zero
//!   mantissa with exponent > 32 can be met by no hash;
//! * valid <=> output (big-endian number) <= target.
use ckb_types::core::{BlockView, HeaderView};
use ckb_types::packed;
use ckb_types::prelude::*;

/// the same block with another nonce and / or compact target; every other byte is kept (no root or hash
/// of the header is recomputed, no builder assertion runs: the header may be deliberately malformed)
pub fn with_header(b: &BlockView, nonce: Option<u128>, compact_target: Option<u32>) -> BlockView {
    let d = b.data();
    let mut raw = d.header().raw().as_builder();
    if let Some(c) = compact_target {
        raw = raw.compact_target(c);
    }
    let mut hb = d.header().as_builder().raw(raw.build());
    if let Some(n) = nonce {
        hb = hb.nonce(n);
    }
    let header = hb.build();
    let block = match b.extension() {
        Some(ext) => packed::BlockV1::new_builder()
            .header(header)
            .uncles(d.uncles())
            .transactions(d.transactions())
            .proposals(d.proposals())
            .extension(ext)
            .build()
            .as_v0(),
        None => packed::Block::new_builder()
            .header(header)
            .uncles(d.uncles())
            .transactions(d.transactions())
            .proposals(d.proposals())
            .build(),
    };
    block.into_view_without_reset_header()
}

#[derive(Clone, Copy, Debug, PartialEq, Eq)]
pub enum PowKind {
    Eaglesong,
    EaglesongBlake2b,
}

impl PowKind {
    pub fn other(self) -> PowKind {
        match self {
            PowKind::Eaglesong => PowKind::EaglesongBlake2b,
            PowKind::EaglesongBlake2b => PowKind::Eaglesong,
        }
    }
    pub fn name(self) -> &'static str {
        match self {
            PowKind::Eaglesong => "eaglesong",
            PowKind::EaglesongBlake2b => "eaglesong-blake2b",
        }
    }
}

pub fn blake2b_ckb(data: &[u8]) -> [u8; 32] {
    let mut out = [0u8; 32];
    let mut h = blake2b_ref::Blake2bBuilder::new(32).personal(b"ckb-default-hash").build();
    h.update(data);
    h.finalize(&mut out);
    out
}

/// the header without its nonce, field by field
pub fn raw_header_bytes(h: &HeaderView) -> [u8; 192] {
    let mut b = [0u8; 192];
    b[0..4].copy_from_slice(&h.version().to_le_bytes());
    b[4..8].copy_from_slice(&h.compact_target().to_le_bytes());
    b[8..16].copy_from_slice(&h.timestamp().to_le_bytes());
    b[16..24].copy_from_slice(&h.number().to_le_bytes());
    b[24..32].copy_from_slice(&h.epoch().full_value().to_le_bytes());
    b[32..64].copy_from_slice(h.parent_hash().as_slice());
    b[64..96].copy_from_slice(h.transactions_root().as_slice());
    b[96..128].copy_from_slice(h.proposals_hash().as_slice());
    b[128..160].copy_from_slice(h.extra_hash().as_slice());
    b[160..192].copy_from_slice(h.dao().as_slice());
    b
}

pub fn pow_hash(h: &HeaderView) -> [u8; 32] {
    blake2b_ckb(&raw_header_bytes(h))
}

pub fn pow_output(kind: PowKind, pow_hash: &[u8; 32], nonce: u128) -> [u8; 32] {
    let mut msg = [0u8; 48];
    msg[0..32].copy_from_slice(pow_hash);
    msg[32..48].copy_from_slice(&nonce.to_le_bytes());
    let mut out = [0u8; 32];
    eaglesong::eaglesong(&msg, &mut out);
    match kind {
        PowKind::Eaglesong => out,
        PowKind::EaglesongBlake2b => blake2b_ckb(&out),
    }
}

/// big-endian target of a compact value; None = no hash can meet it
pub fn target_of(compact: u32) -> Option<[u8; 32]> {
    let e = (compact >> 24) as usize;
    let m = compact & 0x00ff_ffff;
    if m == 0 || e > 32 {
        return None;
    }
    let mut t = [0u8; 32];
    if e <= 3 {
        let v = m >> (8 * (3 - e));
        if v == 0 {
            return None;
        }
        t[29] = (v >> 16) as u8;
        t[30] = (v >> 8) as u8;
        t[31] = v as u8;
    } else {
        let shift = e - 3;
        for i in 0..3 {
            t[31 - shift - i] = (m >> (8 * i)) as u8;
        }
    }
    Some(t)
}

/// the model's verdict on a header's proof of work
pub fn pow_valid(kind: PowKind, h: &HeaderView) -> bool {
    match target_of(h.compact_target()) {
        None => false,
        Some(t) => pow_output(kind, &pow_hash(h), h.nonce()) <= t,
    }
}

/// leading 64 bits of |output - target| relative position: (output as the top 8 bytes, target top 8 bytes)
pub fn top64(x: &[u8; 32]) -> u64 {
    u64::from_be_bytes(x[0..8].try_into().unwrap())
}

#[derive(Clone, Debug, Default)]
pub struct Scan {
    pub tried: u64,
    pub n_valid: u32,
    pub first_valid: Option<u128>,
    /// valid nonce whose output is the largest (closest below or at the target)
    pub valid_max: Option<(u128, [u8; 32])>,
    /// invalid nonce whose output is the smallest (smallest excess over the target)
    pub invalid_min: Option<(u128, [u8; 32])>,
}

/// try nonces start, start+1, ... until `want_valid` valid ones were seen or `cap` tries were made
pub fn scan(kind: PowKind, pow_hash: &[u8; 32], target: &[u8; 32], start: u128, want_valid: u32, cap: u64) -> Scan {
    let mut s = Scan::default();
    let mut nonce = start;
    while s.tried < cap {
        let out = pow_output(kind, pow_hash, nonce);
        s.tried += 1;
        if out <= *target {
            s.n_valid += 1;
            if s.first_valid.is_none() {
                s.first_valid = Some(nonce);
            }
            if s.valid_max.as_ref().map(|(_, o)| out > *o).unwrap_or(true) {
                s.valid_max = Some((nonce, out));
            }
        } else if s.invalid_min.as_ref().map(|(_, o)| out < *o).unwrap_or(true) {
            s.invalid_min = Some((nonce, out));
        }
        if s.n_valid >= want_valid {
            break;
        }
        nonce = nonce.wrapping_add(1);
    }
    s
}

/// compact value of about twice / half the target of `c` (mantissa arithmetic, renormalised); None when
/// that cannot be encoded without the overflow flag or would be zero
pub fn scale_compact(c: u32, up: bool) -> Option<u32> {
    let e = c >> 24;
    let m = c & 0x00ff_ffff;
    if m == 0 {
        return None;
    }
    if up {
        let m2 = m * 2;
        if m2 <= 0x00ff_ffff {
            Some((e << 24) | m2)
        } else if e < 32 {
            Some(((e + 1) << 24) | (m2 >> 8))
        } else {
            None
        }
    } else if m / 2 == 0 {
        None
    } else {
        Some((e << 24) | (m / 2))
    }
}

/// another compact encoding of exactly the same number (mantissa shifted by one byte), if there is one
pub fn other_encoding(c: u32) -> Option<u32> {
    let e = c >> 24;
    let m = c & 0x00ff_ffff;
    if m != 0 && m & 0xff == 0 && e < 0xff {
        Some(((e + 1) << 24) | (m >> 8))
    } else if m != 0 && m <= 0xffff && e > 3 {
        Some(((e - 1) << 24) | (m << 8))
    } else {
        None
    }
}

/// how the nonce of a block is chosen
#[derive(Clone, Copy, Debug, Default, PartialEq, Eq)]
pub enum NonceMode {
    /// first nonce >= start that meets the block's own target
    #[default]
    Mine,
    /// among the nonces tried until 4 valid ones were seen: the valid one with the largest output
    ClosestBelow,
    /// among the same nonces: the invalid one with the smallest output
    SmallestExcess,
    /// keep the given nonce whatever it is worth
    Fixed,
    /// meets the target under the other engine's hash function but not under this one
    OtherEngineOnly,
}

pub const MINE_CAP: u64 = 100_000;
/// cap of the searches for a nonce that must NOT meet a target: under a very easy target (an epoch of
/// difficulty 1 or 2) there is practically none and the candidate is simply not applicable
pub const PROBE_CAP: u64 = 6_000;

/// choose the nonce of `b` under `mode` against the target the header itself claims; None = no such
/// nonce within the cap (or the claimed target cannot be met at all)
pub fn seal(kind: PowKind, b: &BlockView, start: u128, mode: NonceMode) -> Option<BlockView> {
    let set = |n: u128| with_header(b, Some(n), None);
    if mode == NonceMode::Fixed {
        return Some(set(start));
    }
    let target = target_of(b.compact_target())?;
    let ph = pow_hash(&b.header());
    let nonce = match mode {
        NonceMode::Mine => scan(kind, &ph, &target, start, 1, MINE_CAP).first_valid?,
        NonceMode::ClosestBelow => scan(kind, &ph, &target, start, 4, MINE_CAP).valid_max?.0,
        NonceMode::SmallestExcess => scan(kind, &ph, &target, start, 4, 20_000).invalid_min?.0,
        NonceMode::OtherEngineOnly => {
            let mut n = start;
            let mut found = None;
            for _ in 0..PROBE_CAP {
                if pow_output(kind.other(), &ph, n) <= target && pow_output(kind, &ph, n) > target {
                    found = Some(n);
                    break;
                }
                n = n.wrapping_add(1);
            }
            found?
        }
        NonceMode::Fixed => unreachable!(),
    };
    Some(set(nonce))
}

/// serialized size of a block as the size limit counts it (BlockBytesVerifier: the molecule size of the
/// block minus the proposal ids carried by its uncles), derived from the molecule layout of
/// blockchain.mol rather than from the serializer: table = 4 + 4*fields + fields, fixvec = 4 + n*item,
/// dynvec = 4 + 4*n + items, option = item or nothing.
pub mod size {
    use ckb_types::core::{BlockView, TransactionView};
    use ckb_types::packed::{CellOutput, Script};

    pub const HEADER: usize = 208;

    pub fn script(s: &Script) -> usize {
        4 + 3 * 4 + 32 + 1 + (4 + s.args().raw_data().len())
    }
    pub fn cell_output(o: &CellOutput) -> usize {
        4 + 3 * 4 + 8 + script(&o.lock()) + o.type_().to_opt().map(|t| script(&t)).unwrap_or(0)
    }
    pub fn transaction(tx: &TransactionView) -> usize {
        let n_out = tx.outputs().len();
        let outputs: usize = 4 + 4 * n_out + tx.outputs().into_iter().map(|o| cell_output(&o)).sum::<usize>();
        let n_data = tx.outputs_data().len();
        let datas: usize = 4 + 4 * n_data + tx.outputs_data().into_iter().map(|d| 4 + d.raw_data().len()).sum::<usize>();
        let raw = 4 + 6 * 4 + 4 + (4 + 37 * tx.cell_deps().len()) + (4 + 32 * tx.header_deps().len()) + (4 + 44 * tx.inputs().len()) + outputs + datas;
        let n_w = tx.witnesses().len();
        let witnesses: usize = 4 + 4 * n_w + tx.witnesses().into_iter().map(|w| 4 + w.raw_data().len()).sum::<usize>();
        4 + 2 * 4 + raw + witnesses
    }
    /// (size counted against max_block_bytes, full serialized size)
    pub fn block(b: &BlockView) -> (usize, usize) {
        let n_u = b.uncles().data().len();
        let mut uncles_counted = 4 + 4 * n_u;
        let mut uncles_full = uncles_counted;
        for u in b.uncles().data().into_iter() {
            let k = u.proposals().len();
            uncles_counted += 4 + 2 * 4 + HEADER + 4;
            uncles_full += 4 + 2 * 4 + HEADER + 4 + 10 * k;
        }
        let n_tx = b.transactions().len();
        let txs: usize = 4 + 4 * n_tx + b.transactions().iter().map(transaction).sum::<usize>();
        let proposals = 4 + 10 * b.data().proposals().len();
        let (fields, ext) = match b.extension() {
            Some(e) => (5, 4 + e.raw_data().len()),
            None => (4, 0),
        };
        let rest = 4 + 4 * fields + HEADER + txs + proposals + ext;
        (rest + uncles_counted, rest + uncles_full)
    }
}
