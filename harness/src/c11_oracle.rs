//! C11 oracle: every clause of the statement recomputed from scratch from one pool dump
//! (`ckb_tx_pool::verif::VerifDump`).  Nothing here follows the pool's incremental algorithm; the
//! only inputs are the pooled transactions themselves and the bookkeeping values being judged.
use crate::common::*;
use crate::model::{CellKey, cell_key, h32, pid};
use crate::{vensure, vfail};
use ckb_tx_pool::verif::{VerifDump, VerifStatus};
use ckb_types::core::{
    TransactionView,
    tx_pool::{TxPoolEntryInfo, TxPoolInfo},
};
use ckb_types::prelude::*;
use std::collections::{BTreeMap, BTreeSet};

pub type Id = [u8; 10];

#[derive(Clone, Debug)]
pub struct E {
    pub id: Id,
    pub hash: [u8; 32],
    /// 0 pending, 1 gap, 2 proposed
    pub status: u8,
    pub size: u64,
    pub cycles: u64,
    pub fee: u64,
    pub ts: u64,
    /// count, size, cycles, fee
    pub anc: [u64; 4],
    pub desc: [u64; 4],
    pub score_key: (u64, u64, u64, u64),
    pub evict_key: (u64, u64, u64),
    pub inputs: Vec<CellKey>,
    /// out points of the transaction's cell deps (the generator only uses `code` deps)
    pub deps: Vec<CellKey>,
    pub hdeps: Vec<[u8; 32]>,
    pub n_outputs: usize,
    pub tx: TransactionView,
}

#[derive(Clone, Debug, Default)]
pub struct Snap {
    pub entries: BTreeMap<Id, E>,
    pub parents: BTreeMap<Id, BTreeSet<Id>>,
    pub children: BTreeMap<Id, BTreeSet<Id>>,
    pub edges_inputs: BTreeMap<CellKey, Id>,
    pub edges_deps: BTreeMap<CellKey, BTreeSet<Id>>,
    pub edges_hdeps: BTreeMap<Id, Vec<[u8; 32]>>,
    pub score_order: Vec<Id>,
    pub evict_order: Vec<Id>,
    pub total_tx_size: u64,
    pub total_tx_cycles: u64,
    pub counts: [u64; 3],
    pub tip_hash: [u8; 32],
    pub verify_queue_len: u64,
    /// the dump listed the same id twice (cannot happen with a unique index; kept for the check)
    pub duplicate_ids: bool,
    /// the orphan pool (sub-check `remote`)
    pub orphans: BTreeMap<Id, Orph>,
    /// the orphan pool's `by_out_point` index
    pub orphan_index: BTreeMap<CellKey, BTreeSet<Id>>,
    pub orphan_len: u64,
    /// the verify queue in pop order: (id, remote = (declared cycles, peer))
    pub queue: Vec<(Id, Option<(u64, usize)>)>,
    /// activities in flight (verify workers, recover-back tasks, the reorg task)
    pub inflight: u64,
    /// the conflicts cache (ids)
    pub conflicts_cache: BTreeSet<Id>,
}

#[derive(Clone, Debug)]
pub struct Orph {
    pub id: Id,
    pub hash: [u8; 32],
    pub peer: usize,
    pub declared: u64,
    pub expires_at: u64,
    pub inputs: Vec<CellKey>,
    pub deps: Vec<CellKey>,
    pub tx: TransactionView,
}

pub fn snap_of(d: &VerifDump) -> Snap {
    let mut s = Snap::default();
    for e in &d.entries {
        let id = pid(&e.id);
        let ent = E {
            id,
            hash: h32(&e.tx_hash),
            status: match e.status {
                VerifStatus::Pending => 0,
                VerifStatus::Gap => 1,
                VerifStatus::Proposed => 2,
            },
            size: e.size,
            cycles: e.cycles,
            fee: e.fee,
            ts: e.timestamp,
            anc: [e.ancestors_count, e.ancestors_size, e.ancestors_cycles, e.ancestors_fee],
            desc: [e.descendants_count, e.descendants_size, e.descendants_cycles, e.descendants_fee],
            score_key: e.score_key,
            evict_key: e.evict_key,
            inputs: e.tx.inputs().into_iter().map(|i| cell_key(&i.previous_output())).collect(),
            deps: e.tx.cell_deps().into_iter().map(|c| cell_key(&c.out_point())).collect(),
            hdeps: e.tx.header_deps().into_iter().map(|h| h32(&h)).collect(),
            n_outputs: e.tx.outputs().len(),
            tx: e.tx.clone(),
        };
        if s.entries.insert(id, ent).is_some() {
            s.duplicate_ids = true;
        }
    }
    for (id, ps, cs) in &d.links {
        s.parents.insert(pid(id), ps.iter().map(pid).collect());
        s.children.insert(pid(id), cs.iter().map(pid).collect());
    }
    for (o, id) in &d.edges_inputs {
        s.edges_inputs.insert(cell_key(o), pid(id));
    }
    for (o, ids) in &d.edges_deps {
        s.edges_deps.insert(cell_key(o), ids.iter().map(pid).collect());
    }
    for (id, hs) in &d.edges_header_deps {
        s.edges_hdeps.insert(pid(id), hs.iter().map(h32).collect());
    }
    s.score_order = d.score_order.iter().map(pid).collect();
    s.evict_order = d.evict_order.iter().map(pid).collect();
    s.total_tx_size = d.total_tx_size;
    s.total_tx_cycles = d.total_tx_cycles;
    s.counts = [d.pending_count, d.gap_count, d.proposed_count];
    s.tip_hash = h32(&d.tip_hash);
    s.verify_queue_len = d.verify_queue_len;
    for o in &d.orphans {
        let id = pid(&o.id);
        s.orphans.insert(
            id,
            Orph {
                id,
                hash: h32(&o.tx.hash()),
                peer: o.peer,
                declared: o.declared_cycles,
                expires_at: o.expires_at,
                inputs: o.tx.inputs().into_iter().map(|i| cell_key(&i.previous_output())).collect(),
                deps: o.tx.cell_deps().into_iter().map(|c| cell_key(&c.out_point())).collect(),
                tx: o.tx.clone(),
            },
        );
    }
    for (o, ids) in &d.orphan_by_out_point {
        s.orphan_index.insert(cell_key(o), ids.iter().map(pid).collect());
    }
    s.orphan_len = d.orphan_len;
    s.queue = d.verify_queue.iter().map(|(id, r, _, _)| (pid(id), *r)).collect();
    s.inflight = d.inflight;
    s.conflicts_cache = d.conflicts_cache.iter().map(|(id, _)| pid(id)).collect();
    s
}

fn hx(id: &Id) -> String {
    hex(id)
}

impl Snap {
    /// transitive closure over the dumped links, including `id` itself
    pub fn closure(&self, id: &Id, up: bool) -> BTreeSet<Id> {
        let rel = if up { &self.parents } else { &self.children };
        let mut seen: BTreeSet<Id> = BTreeSet::new();
        let mut stack = vec![*id];
        while let Some(x) = stack.pop() {
            if !seen.insert(x) {
                continue;
            }
            if let Some(n) = rel.get(&x) {
                for y in n {
                    if !seen.contains(y) {
                        stack.push(*y);
                    }
                }
            }
        }
        seen
    }
}

/// documented in util/types/src/core/tx_pool.rs: weight = max(size, cycles * 0.000_170_571_4)
pub fn weight(size: u64, cycles: u64) -> u64 {
    std::cmp::max(size, (cycles as f64 * 0.000_170_571_4_f64) as u64)
}

/// FeeRate::calculate: shannons per kilo-weight
pub fn fee_rate(fee: u64, weight: u64) -> u64 {
    if weight == 0 { 0 } else { fee.saturating_mul(1000) / weight }
}

fn score_cmp(a: &(u64, u64, u64, u64), b: &(u64, u64, u64, u64)) -> std::cmp::Ordering {
    // documented in sort_key.rs: compare min(fee/weight, ancestors_fee/ancestors_weight), ties by
    // ancestors weight
    let m = |k: &(u64, u64, u64, u64)| -> (u64, u64) {
        if (k.0 as u128) * (k.3 as u128) < (k.2 as u128) * (k.1 as u128) { (k.0, k.1) } else { (k.2, k.3) }
    };
    let (af, aw) = m(a);
    let (bf, bw) = m(b);
    let l = af as u128 * bw as u128;
    let r = bf as u128 * aw as u128;
    if l == r { a.3.cmp(&b.3) } else { l.cmp(&r) }
}

fn evict_cmp(a: &(u64, u64, u64), b: &(u64, u64, u64)) -> std::cmp::Ordering {
    // fee rate, then descendants count, then timestamp
    (a.0, a.2, a.1).cmp(&(b.0, b.2, b.1))
}

/// clauses (1), (2), (4) and the index keys
pub fn check_structure(s: &Snap) -> Verdict {
    vensure!(!s.duplicate_ids, "entries:duplicate-id", "the dump lists one proposal id twice");
    // (1) no two entries share an input; edges.inputs = exactly the inputs of the entries
    let mut want_inputs: BTreeMap<CellKey, Id> = BTreeMap::new();
    for e in s.entries.values() {
        for k in &e.inputs {
            if let Some(o) = want_inputs.insert(*k, e.id) {
                vfail!(
                    "inputs:two-pooled-transactions-spend-the-same-cell",
                    "entries {} and {} both spend {}#{}",
                    hx(&o),
                    hx(&e.id),
                    hex(&k.0),
                    k.1
                );
            }
        }
    }
    for (k, id) in &want_inputs {
        match s.edges_inputs.get(k) {
            Some(x) if x == id => {}
            Some(x) => vfail!("edges.inputs:wrong-owner", "input {}#{} of entry {} is recorded for {}", hex(&k.0), k.1, hx(id), hx(x)),
            None => vfail!("edges.inputs:missing-input-of-an-entry", "input {}#{} of entry {} is not in edges.inputs", hex(&k.0), k.1, hx(id)),
        }
    }
    for (k, id) in &s.edges_inputs {
        if !want_inputs.contains_key(k) {
            let pooled = s.entries.contains_key(id);
            vfail!(
                if pooled { "edges.inputs:stale-record-owner-pooled" } else { "edges.inputs:stale-record-owner-not-pooled" },
                "edges.inputs holds {}#{} -> {} but no pooled transaction spends that cell",
                hex(&k.0),
                k.1,
                hx(id)
            );
        }
    }
    // edges.deps
    let mut want_deps: BTreeMap<CellKey, BTreeSet<Id>> = BTreeMap::new();
    for e in s.entries.values() {
        for k in &e.deps {
            want_deps.entry(*k).or_default().insert(e.id);
        }
    }
    for (k, ids) in &want_deps {
        let got = s.edges_deps.get(k).cloned().unwrap_or_default();
        for id in ids {
            vensure!(got.contains(id), "edges.deps:missing-dep-of-an-entry", "cell dep {}#{} of entry {} is not in edges.deps", hex(&k.0), k.1, hx(id));
        }
    }
    for (k, ids) in &s.edges_deps {
        for id in ids {
            if !want_deps.get(k).map(|w| w.contains(id)).unwrap_or(false) {
                vfail!(
                    if s.entries.contains_key(id) { "edges.deps:stale-record-owner-pooled" } else { "edges.deps:stale-record-owner-not-pooled" },
                    "edges.deps holds {}#{} -> {} but that entry has no such cell dep / is not pooled",
                    hex(&k.0),
                    k.1,
                    hx(id)
                );
            }
        }
    }
    // edges.header_deps
    for e in s.entries.values() {
        let got = s.edges_hdeps.get(&e.id).cloned().unwrap_or_default();
        vensure!(got == e.hdeps, "edges.header_deps:differs-from-entry", "entry {} has {} header deps, edges.header_deps records {}", hx(&e.id), e.hdeps.len(), got.len());
    }
    for id in s.edges_hdeps.keys() {
        vensure!(s.entries.contains_key(id), "edges.header_deps:stale-record-owner-not-pooled", "edges.header_deps holds an entry for {} which is not pooled", hx(id));
    }
    // (2) links
    for id in s.parents.keys() {
        vensure!(s.entries.contains_key(id), "links:record-for-a-transaction-that-is-not-pooled", "links holds a record for {} which is not pooled", hx(id));
    }
    let by_hash: BTreeMap<[u8; 32], Id> = s.entries.values().map(|e| (e.hash, e.id)).collect();
    for c in s.entries.values() {
        let ps = match s.parents.get(&c.id) {
            Some(p) => p,
            None => vfail!("links:no-record-for-a-pooled-transaction", "entry {} has no links record", hx(&c.id)),
        };
        // required: spends or deps an output of a pooled transaction
        let mut required: BTreeSet<Id> = BTreeSet::new();
        for k in c.inputs.iter().chain(c.deps.iter()) {
            if let Some(p) = by_hash.get(&k.0) {
                if *p != c.id {
                    required.insert(*p);
                }
            }
        }
        for p in &required {
            vensure!(ps.contains(p), "links:missing-parent-for-a-spend-or-dep", "entry {} spends or deps an output of pooled {} but does not list it as parent", hx(&c.id), hx(p));
        }
        for p in ps {
            let pe = match s.entries.get(p) {
                Some(x) => x,
                None => vfail!("links:parent-is-not-pooled", "entry {} lists parent {} which is not pooled", hx(&c.id), hx(p)),
            };
            // allowed in addition: the child consumes a cell the parent uses as cell dep
            let kind3 = pe.deps.iter().any(|d| c.inputs.contains(d));
            vensure!(
                required.contains(p) || kind3,
                "links:parent-without-spend-or-dependency",
                "entry {} lists parent {} but neither spends / deps one of its outputs nor consumes one of its cell deps",
                hx(&c.id),
                hx(p)
            );
            vensure!(
                s.children.get(p).map(|x| x.contains(&c.id)).unwrap_or(false),
                "links:children-not-inverse-of-parents",
                "{} is a parent of {} but does not list it as child",
                hx(p),
                hx(&c.id)
            );
        }
    }
    for (p, cs) in &s.children {
        for c in cs {
            vensure!(
                s.parents.get(c).map(|x| x.contains(p)).unwrap_or(false),
                if s.entries.contains_key(c) { "links:children-not-inverse-of-parents" } else { "links:child-is-not-pooled" },
                "{} lists child {} which does not list it as parent (child pooled: {})",
                hx(p),
                hx(c),
                s.entries.contains_key(c)
            );
        }
    }
    // index keys = keys recomputed from the entry
    for e in s.entries.values() {
        let want_score = (e.fee, weight(e.size, e.cycles), e.anc[3], weight(e.anc[1], e.anc[2]));
        vensure!(
            e.score_key == want_score,
            "index:score-key-differs-from-entry",
            "entry {}: stored score key {:?}, recomputed from the entry {:?}",
            hx(&e.id),
            e.score_key,
            want_score
        );
        let fr = fee_rate(e.desc[3], weight(e.desc[1], e.desc[2])).max(fee_rate(e.fee, weight(e.size, e.cycles)));
        let want_evict = (fr, e.ts, e.desc[0]);
        vensure!(
            e.evict_key == want_evict,
            "index:evict-key-differs-from-entry",
            "entry {}: stored evict key {:?}, recomputed from the entry {:?}",
            hx(&e.id),
            e.evict_key,
            want_evict
        );
    }
    for (name, order) in [("score", &s.score_order), ("evict", &s.evict_order)] {
        let set: BTreeSet<Id> = order.iter().cloned().collect();
        vensure!(
            order.len() == s.entries.len() && set.len() == order.len() && set.iter().all(|i| s.entries.contains_key(i)),
            format!("index:{name}-order-is-not-a-permutation-of-the-entries"),
            "{name} index lists {} ids for {} entries",
            order.len(),
            s.entries.len()
        );
        for w in order.windows(2) {
            let (a, b) = (&s.entries[&w[0]], &s.entries[&w[1]]);
            let ord = if name == "score" { score_cmp(&a.score_key, &b.score_key) } else { evict_cmp(&a.evict_key, &b.evict_key) };
            vensure!(ord != std::cmp::Ordering::Greater, format!("index:{name}-order-not-sorted"), "{name} index: {} before {} although its key is greater", hx(&a.id), hx(&b.id));
        }
    }
    // (4) counters
    let mut counts = [0u64; 3];
    for e in s.entries.values() {
        counts[e.status as usize] += 1;
    }
    vensure!(counts == s.counts, "counters:per-status-counts", "pending/gap/proposed counters {:?}, entries by status {:?}", s.counts, counts);
    let size: u64 = s.entries.values().map(|e| e.size).sum();
    let cycles: u64 = s.entries.values().map(|e| e.cycles).sum();
    vensure!(
        s.total_tx_size == size,
        if s.total_tx_size > size { "counters:total_tx_size:too-high" } else { "counters:total_tx_size:too-low" },
        "total_tx_size {} but the entries' sizes sum to {}",
        s.total_tx_size,
        size
    );
    vensure!(
        s.total_tx_cycles == cycles,
        if s.total_tx_cycles > cycles { "counters:total_tx_cycles:too-high" } else { "counters:total_tx_cycles:too-low" },
        "total_tx_cycles {} but the entries' cycles sum to {}",
        s.total_tx_cycles,
        cycles
    );
    Ok(())
}

pub fn check_api(s: &Snap, info: &TxPoolInfo, all: &TxPoolEntryInfo) -> Verdict {
    vensure!(h32(&info.tip_hash) == s.tip_hash, "api:get_tx_pool_info:tip", "tip of get_tx_pool_info differs from the dump's");
    vensure!(
        info.pending_size as u64 == s.counts[0] + s.counts[1] && info.proposed_size as u64 == s.counts[2],
        "api:get_tx_pool_info:sizes",
        "pending_size {} proposed_size {} vs counters {:?}",
        info.pending_size,
        info.proposed_size,
        s.counts
    );
    vensure!(
        info.total_tx_size as u64 == s.total_tx_size && info.total_tx_cycles == s.total_tx_cycles,
        "api:get_tx_pool_info:totals",
        "totals ({}, {}) vs dump ({}, {})",
        info.total_tx_size,
        info.total_tx_cycles,
        s.total_tx_size,
        s.total_tx_cycles
    );
    vensure!(
        all.pending.len() + all.proposed.len() == s.entries.len(),
        "api:get_all_entry_info:count",
        "get_all_entry_info lists {}+{} entries, the dump {}",
        all.pending.len(),
        all.proposed.len(),
        s.entries.len()
    );
    for e in s.entries.values() {
        let h = ckb_types::packed::Byte32::from_slice(&e.hash).unwrap();
        let i = if e.status == 2 { all.proposed.get(&h) } else { all.pending.get(&h) };
        let i = match i {
            Some(i) => i,
            None => vfail!("api:get_all_entry_info:entry-missing-or-in-wrong-class", "entry {} (status {}) not listed in its class", hx(&e.id), e.status),
        };
        let got = (i.cycles, i.size, i.fee.as_u64(), i.ancestors_size, i.ancestors_cycles, i.descendants_size, i.descendants_cycles, i.ancestors_count, i.timestamp);
        let want = (e.cycles, e.size, e.fee, e.anc[1], e.anc[2], e.desc[1], e.desc[2], e.anc[0], e.ts);
        vensure!(got == want, "api:get_all_entry_info:fields", "entry {}: info {:?} vs dump {:?}", hx(&e.id), got, want);
    }
    Ok(())
}

#[derive(Clone, Copy, Debug, PartialEq, Eq)]
pub enum Side {
    Anc,
    Desc,
    Limit,
}

#[derive(Clone, Debug)]
pub struct Mismatch {
    pub id: Id,
    pub side: Side,
    pub high: bool,
    pub got: [u64; 4],
    pub want: [u64; 4],
    pub detail: String,
}

/// clause (3): the eight aggregates = sums over the closure of the links (self included, as
/// `TxEntry::new` initialises them and entry.rs documents), and clause (5): the ancestor limit
pub fn aggregate_mismatches(s: &Snap, max_ancestors: u64) -> Vec<Mismatch> {
    let mut out = vec![];
    for e in s.entries.values() {
        for (side, up, got) in [(Side::Anc, true, e.anc), (Side::Desc, false, e.desc)] {
            let cl = s.closure(&e.id, up);
            let mut want = [0u64; 4];
            for x in &cl {
                if let Some(m) = s.entries.get(x) {
                    want[0] += 1;
                    want[1] += m.size;
                    want[2] += m.cycles;
                    want[3] += m.fee;
                }
            }
            if want != got {
                let high = got[0] > want[0] || (got[0] == want[0] && got[1] > want[1]);
                out.push(Mismatch {
                    id: e.id,
                    side,
                    high,
                    got,
                    want,
                    detail: format!(
                        "entry {}: {} (count,size,cycles,fee) reported {:?}, recomputed over the link closure {:?}",
                        hx(&e.id),
                        if up { "ancestors" } else { "descendants" },
                        got,
                        want
                    ),
                });
            }
            if up && (want[0] > max_ancestors || got[0] > max_ancestors) {
                out.push(Mismatch {
                    id: e.id,
                    side: Side::Limit,
                    high: true,
                    got,
                    want,
                    detail: format!("entry {}: {} pooled ancestors incl. itself (reported {}), max_ancestors_count {}", hx(&e.id), want[0], got[0], max_ancestors),
                });
            }
        }
    }
    out
}

/// is the surplus of an ancestors aggregate the sum of some entries that expired in this operation?
fn surplus_is_expired(m: &Mismatch, p0: &Snap, p1: &Snap, expired: &BTreeSet<Id>) -> bool {
    let cands: Vec<&E> = expired.iter().filter(|i| !p1.entries.contains_key(*i)).filter_map(|i| p0.entries.get(i)).collect();
    if cands.is_empty() || cands.len() > 14 || m.got[0] < m.want[0] || m.got[1] < m.want[1] || m.got[3] < m.want[3] {
        return false;
    }
    let diff = (m.got[0] - m.want[0], m.got[1] - m.want[1], m.got[3] - m.want[3]);
    (1u32..(1 << cands.len())).any(|mask| {
        let mut acc = (0u64, 0u64, 0u64);
        for (i, e) in cands.iter().enumerate() {
            if mask >> i & 1 == 1 {
                acc = (acc.0 + 1, acc.1 + e.size, acc.2 + e.fee);
            }
        }
        acc == diff
    })
}

/// Name the structural trigger of an aggregate mismatch by comparing the dumps before / after the
/// operation (only used to give different root causes different signatures).
/// A transaction the operation may have inserted and removed again before the next dump (the
/// submitted transaction evicted by the size limit right away; transactions of detached blocks
/// that were re-added and then evicted).
#[derive(Clone, Debug)]
pub struct Transient {
    pub hash: [u8; 32],
    pub inputs: Vec<CellKey>,
    pub deps: Vec<CellKey>,
    pub size: u64,
    pub fee: u64,
}

/// is the surplus (got - want) of a descendants aggregate the sum of some transients that depend
/// (transitively) on the entry's subtree?
fn surplus_is_transients(m: &Mismatch, p1: &Snap, transients: &[Transient]) -> bool {
    let cl = p1.closure(&m.id, false);
    let mut hashes: BTreeSet<[u8; 32]> = cl.iter().filter_map(|d| p1.entries.get(d).map(|e| e.hash)).collect();
    // cells used as cell dep inside the subtree: their consumers are children too
    let mut dep_cells: BTreeSet<CellKey> = cl.iter().filter_map(|d| p1.entries.get(d)).flat_map(|e| e.deps.iter().cloned()).collect();
    let mut dep: Vec<&Transient> = vec![];
    loop {
        let mut grew = false;
        for t in transients {
            if !hashes.contains(&t.hash) && (t.inputs.iter().chain(t.deps.iter()).any(|k| hashes.contains(&k.0)) || t.inputs.iter().any(|k| dep_cells.contains(k))) {
                hashes.insert(t.hash);
                dep_cells.extend(t.deps.iter().cloned());
                dep.push(t);
                grew = true;
            }
        }
        if !grew {
            break;
        }
    }
    if dep.is_empty() || dep.len() > 12 || m.got[0] < m.want[0] || m.got[1] < m.want[1] || m.got[3] < m.want[3] {
        return false;
    }
    let diff = (m.got[0] - m.want[0], m.got[1] - m.want[1], m.got[3] - m.want[3]);
    (1u32..(1 << dep.len())).any(|mask| {
        let mut acc = (0u64, 0u64, 0u64);
        for (i, t) in dep.iter().enumerate() {
            if mask >> i & 1 == 1 {
                acc = (acc.0 + 1, acc.1 + t.size, acc.2 + t.fee);
            }
        }
        acc == diff
    })
}

/// `expired` = entries of `p0` whose timestamp + expiry lies before the clock of a block operation.
pub fn classify(m: &Mismatch, p0: &Snap, p1: &Snap, op: &str, committed: &BTreeSet<Id>, transients: &[Transient], expired: &BTreeSet<Id>) -> String {
    let dir = if m.high { "too-high" } else { "too-low" };
    let is_new = |i: &Id| !p0.entries.contains_key(i);
    match m.side {
        Side::Desc => {
            let cause = if is_new(&m.id) {
                if m.high && surplus_is_transients(m, p1, transients) {
                    // a descendant was inserted and evicted again inside this operation
                    "descendant-removed-while-ancestor-stays"
                } else if p1.children.get(&m.id).map(|c| !c.is_empty()).unwrap_or(false) {
                    "entry-added-after-its-pooled-children"
                } else {
                    "new-entry"
                }
            } else {
                let d0 = p0.closure(&m.id, false);
                let gone: Vec<&Id> = d0.iter().filter(|d| !p1.entries.contains_key(*d)).collect();
                let d1 = p1.closure(&m.id, false);
                let chain_op = op == "block" || op == "reorg" || op == "clock";
                // the entry itself or something in its subtree was gap / proposed: a detached
                // proposal makes the pool remove and re-add (part of) the subtree
                let subtree_readd = chain_op && d0.iter().any(|d| p0.closure(d, true).iter().any(|a| d0.contains(a) && p0.entries.get(a).map(|e| e.status != 0).unwrap_or(false)));
                // descendants that are still pooled but no longer reachable: a committed transaction
                // was their only link to this entry (PoolMap::remove_entry subtracts only itself);
                // the surplus must be exactly their sum
                let cut_off: Vec<&E> = d0
                    .iter()
                    .filter(|d| !d1.contains(*d))
                    .filter_map(|d| p1.entries.get(d))
                    .collect();
                let cut_sum = cut_off.iter().fold((0u64, 0u64, 0u64), |a, e| (a.0 + 1, a.1 + e.size, a.2 + e.fee));
                let surplus_is_cut_off = m.high
                    && !cut_off.is_empty()
                    && gone.iter().any(|g| committed.contains(*g))
                    && m.got[0] >= m.want[0]
                    && (m.got[0] - m.want[0], m.got[1].wrapping_sub(m.want[1]), m.got[3].wrapping_sub(m.want[3])) == cut_sum;
                if !m.high && subtree_readd {
                    "descendant-readded-after-detached-proposal"
                } else if surplus_is_cut_off {
                    "descendant-kept-after-committed-intermediate-cut-the-link"
                } else if m.high
                    && gone.iter().any(|g| !committed.contains(*g) && gone.iter().any(|c| committed.contains(*c) && p0.closure(c, false).contains(*g)))
                {
                    // the listed cut-link finding with the cut-off descendant gone as well: the
                    // commit of an intermediate removed the only link, the descendant below it then
                    // left (conflict, commit order) without being able to reach this entry
                    "descendant-removed-after-committed-intermediate-cut-the-link"
                } else if gone.iter().any(|d| !committed.contains(*d) && expired.contains(*d)) {
                    "descendant-expired-while-ancestor-stays"
                } else if gone.iter().any(|d| !committed.contains(*d)) {
                    "descendant-removed-while-ancestor-stays"
                } else if !gone.is_empty() {
                    "descendant-committed-while-ancestor-stays"
                } else if d0.iter().any(|d| *d != m.id && p0.closure(d, true).iter().any(|a| *a != m.id && p0.entries.get(a).map(|e| e.status != 0).unwrap_or(false))) && (op == "block" || op == "reorg" || op == "clock") {
                    "descendant-readded-after-detached-proposal"
                } else if surplus_is_transients(m, p1, transients) {
                    // the removed subtree is the transaction inserted (and counted) by this very operation
                    "descendant-removed-while-ancestor-stays"
                } else if d1.iter().any(|d| is_new(d)) {
                    "descendant-added"
                } else {
                    "unexplained"
                }
            };
            { let _ = op; format!("aggregates:descendants:{dir}:{cause}") }
        }
        Side::Anc | Side::Limit => {
            let a1 = p1.closure(&m.id, true);
            let cause = if is_new(&m.id) {
                // several transactions of detached blocks are re-added by one notification
                if (!m.high || m.side == Side::Limit) && (op == "block" || op == "reorg" || op == "clock") && a1.iter().any(|a| *a != m.id && is_new(a)) {
                    "ancestor-added-after-its-pooled-descendant"
                } else if m.high && surplus_is_expired(m, p0, p1, expired) {
                    // inserted by a verify-queue worker while the block was processed, then the
                    // notification expired its ancestors entry by entry
                    "ancestor-expired-while-descendant-stays"
                } else {
                    "new-entry"
                }
            } else {
                let a0 = p0.closure(&m.id, true);
                let gone: Vec<&Id> = a0.iter().filter(|a| !p1.entries.contains_key(*a)).collect();
                let new_ancestor = a1.iter().any(|a| is_new(a));
                // a surplus is explained by ancestors that left, a deficit by ancestors that came
                if (!m.high || gone.is_empty() || m.side == Side::Limit) && new_ancestor {
                    "ancestor-added-after-its-pooled-descendant"
                } else if gone.is_empty() {
                    let chain_op = op == "block" || op == "reorg" || op == "clock";
                    if !m.high && chain_op && a0.iter().any(|a| p0.entries.get(a).map(|e| e.status != 0).unwrap_or(false)) {
                        // a gap / proposed ancestor (or the entry itself): a detached proposal makes
                        // the pool remove that subtree and re-add it sorted by ancestors_count
                        "ancestor-readded-after-detached-proposal"
                    } else {
                        "unexplained"
                    }
                } else if gone.iter().all(|a| committed.contains(*a)) {
                    "ancestor-committed-while-descendant-stays"
                } else if gone.iter().any(|a| expired.contains(*a))
                    && !gone
                        .iter()
                        .filter(|g| !committed.contains(**g))
                        .all(|g| gone.iter().any(|c| committed.contains(*c) && p0.closure(c, true).contains(*g)))
                {
                    // (an expired ancestor above a transaction committed by the same block is the listed
                    // cut-link finding below: the commit removed the only link, the expiry that follows
                    // cannot reach the descendant any more)
                    "ancestor-expired-while-descendant-stays"
                } else if gone.iter().any(|g| !committed.contains(*g) && gone.iter().any(|c| committed.contains(*c) && p0.closure(c, true).contains(*g))) {
                    // a committed transaction sat between the entry and an ancestor that was then
                    // evicted (only possible when the committed one is a child through a dep'ed cell)
                    "ancestor-evicted-after-committed-intermediate-cut-the-link"
                } else {
                    "ancestor-removed-while-descendant-stays"
                }
            };
            if m.side == Side::Limit {
                format!("ancestor-limit:exceeded:{cause}")
            } else {
                format!("aggregates:ancestors:{dir}:{cause}")
            }
        }
    }
}

/// entries sharing an input with the new transaction, plus all their descendants
pub fn replaced_set(p0: &Snap, inputs: &BTreeSet<CellKey>) -> BTreeSet<Id> {
    let mut r = BTreeSet::new();
    for e in p0.entries.values() {
        if e.inputs.iter().any(|k| inputs.contains(k)) {
            r.extend(p0.closure(&e.id, false));
        }
    }
    r
}

/// clause (6).  `fee` is the true fee of the new transaction (inputs - outputs, known to the
/// generator), `rate` = min_rbf_rate.
#[allow(clippy::too_many_arguments)]
pub fn rbf_clause(
    p0: &Snap,
    p1: &Snap,
    id: &Id,
    inputs: &BTreeSet<CellKey>,
    size: u64,
    fee: u64,
    rate: u64,
    rbf_on: bool,
    accepted: bool,
    tx: &TransactionView,
    max_pool_size: u64,
    max_ancestors: u64,
    st: &mut Stats,
) -> Verdict {
    let conflicts: BTreeSet<Id> = p0.entries.values().filter(|e| e.inputs.iter().any(|k| inputs.contains(k))).map(|e| e.id).collect();
    if conflicts.is_empty() {
        return Ok(());
    }
    let replaced = replaced_set(p0, inputs);
    let sum: u64 = replaced.iter().map(|i| p0.entries[i].fee).sum();
    let thr = sum + rate * size / 1000;
    let admitted = p1.entries.contains_key(id);
    if let Some(e) = p1.entries.get(id) {
        vensure!(e.fee == fee, "rbf:entry-fee-differs-from-inputs-minus-outputs", "replacement entry records fee {} but pays {}", e.fee, fee);
    }
    if admitted || accepted {
        vensure!(rbf_on, "rbf:replacement-admitted-while-rbf-disabled", "a transaction conflicting with {} pooled entries was admitted although min_rbf_rate <= min_fee_rate", conflicts.len());
        vensure!(
            fee >= thr,
            "rbf:replacement-admitted-below-replaced-fees-plus-increment",
            "replacement pays {fee} < {thr} = sum of {} replaced fees {sum} + min_rbf_rate {rate} * size {size} / 1000",
            replaced.len()
        );
        let both: Vec<String> = replaced.iter().filter(|r| p1.entries.contains_key(*r)).map(hx).collect();
        vensure!(both.is_empty() || !admitted, "rbf:replaced-and-replacing-both-pooled", "replacement {} admitted but replaced {:?} still pooled", hx(id), both);
        st.label("rbf:replacement-admitted");
        if replaced.len() > conflicts.len() {
            st.label("rbf:replacement-removed-descendants-too");
        }
        if fee == thr {
            st.label("rbf:admitted-at-exact-threshold");
        }
    } else {
        if rbf_on && fee + 1 == thr {
            st.label("rbf:rejected-at-threshold-minus-1");
        }
        // completeness, restricted to the fully determined case (grounded in the RPC field
        // `min_replace_fee` = "the minimal fee to replace this tx" and check_rbf's own message
        // "expect it to >= {min_replace_fee} to replace old txs"): one victim, exactly the
        // victim's inputs, no extra deps, not larger than the victim (so the pool, which was within its
        // size limit, cannot exceed it afterwards), pays the threshold
        if rbf_on && conflicts.len() == 1 && fee >= thr && replaced.len() <= 100 && p0.total_tx_size <= max_pool_size {
            let v = &p0.entries[conflicts.iter().next().unwrap()];
            let same_inputs = v.inputs.iter().cloned().collect::<BTreeSet<_>>() == *inputs;
            let plain = tx.cell_deps().len() == 1 && tx.header_deps().is_empty();
            // the victim itself respects the ancestor limit (the replacement has the same parents)
            let within_limit = p0.closure(&v.id, true).len() as u64 <= max_ancestors;
            if same_inputs && plain && size <= v.size && within_limit {
                vfail!(
                    "rbf:same-input-replacement-paying-the-threshold-rejected",
                    "replacement of {} with the same inputs, size {size} <= {}, fee {fee} >= threshold {thr} was not admitted",
                    hx(&v.id),
                    v.size
                );
            }
        }
    }
    Ok(())
}
