//! C16 part D — "sync-session": the Sync protocol driven END TO END through the real protocol handler.
//! Messages enter through `CKBProtocolHandler::received(&mut Synchronizer, nc, peer, bytes)`; the
//! node's own requests come out of `notify`; `nc` is a recording `CKBProtocolContext`.
//!
//! A case is a model-built tree of valid blocks (a main chain, lighter side branches, one block with
//! a valid header and a wrong DAO field, one stored-but-never-verified sibling), a node that holds
//! the first few main blocks, and a script of messages from 2-3 fake peers: GetHeaders (locators of
//! every shape), SendHeaders (continuations, duplicates, gaps, non-continuous, oversized, bad
//! fields), GetBlocks, answers to the node's own GetBlocks (in order, reversed, partial, with the
//! invalid block), unsolicited / stored / tampered / malformed SendBlock, InIBD, raw bytes.
//!
//! Oracle
//!  (1) `received` / `notify` / `connected` / `disconnected` never panic, no node thread panics;
//!  (2) a SendHeaders reply holds only headers of the node's main chain, consecutive, starting right
//!      after a common block of the locator (the latest one for a genuine locator), at most
//!      MAX_HEADERS_LEN, cut at the stop hash; locators that are empty, oversized or do not end in the
//!      genesis draw no reply; SendBlock replies to GetBlocks carry the exact bytes of the model
//!      block for requested hashes that were ever part of the node's main chain (verified), once
//!      each; unknown / unverified / invalid hashes stay unanswered;
//!  (3) at every quiescent point the tip is a model-valid block whose ancestors were all delivered,
//!      with the greatest total difficulty among such blocks; headers sent in a valid SendHeaders are
//!      known afterwards; more than MAX_HEADERS_LEN headers are never taken; a peer that sent only
//!      documented-valid data is never banned; after the script a fresh honest peer (headers of the
//!      main chain, every GetBlocks answered) brings the node to the main tip, whatever came before;
//!  (4) no message of the node exceeds the frame bound of the Sync protocol.
//!
//! Development aid (never set by `./check`): VERIF_C16Y_TRACE=1 prints every step.
use crate::c16_bytes::guard;
use crate::common::*;
use crate::model::*;
use crate::node::{Env, SpecCfg, build_env, default_tx_pool_config};
use crate::plan::lock_variant;
use crate::vfail;
use ckb_app_config::{DBConfig, NetworkConfig};
use ckb_async_runtime::{Handle, new_global_runtime};
use ckb_chain::{ChainController, ChainServiceScope, LonelyBlock};
use ckb_constant::sync::{INIT_BLOCKS_IN_TRANSIT_PER_PEER, MAX_HEADERS_LEN, MAX_LOCATOR_SIZE};
use ckb_network::{
    Behaviour, CKBProtocolContext, CKBProtocolHandler, Error as NetError, Flags, NetworkController, NetworkService,
    NetworkState, Peer, PeerIndex, ProtocolId, SupportProtocols, TargetSession, async_trait, bytes::Bytes as NBytes,
    network::TransportType,
};
use ckb_shared::block_status::BlockStatus;
use ckb_shared::{Shared, SharedBuilder};
use ckb_store::ChainStore;
use ckb_sync::{SyncShared, Synchronizer};
use ckb_types::{
    core::{BlockView, EpochNumberWithFraction, HeaderBuilder, HeaderView},
    packed::{self, Byte32},
    prelude::*,
};
use proptest::prelude::*;
use serde::{Deserialize, Serialize};
use serde_json::{Value, json};
use std::collections::{BTreeMap, HashMap, HashSet};
use std::future::Future;
use std::pin::Pin;
use std::sync::atomic::{AtomicBool, AtomicUsize, Ordering};
use std::sync::{Arc, Mutex, mpsc};
use std::time::{Duration, Instant};

// ------------------------------------------------------------------------------------------------
// case

#[derive(Clone, Copy, Debug, PartialEq, Eq, Serialize, Deserialize)]
pub enum Loc {
    /// the locator of the block at height sel of chain c (ten consecutive, then doubling, genesis)
    Proper(u8, u16),
    /// every entry twice
    Dup(u8, u16),
    /// the same without the final genesis hash
    NoGenesisTail(u8, u16),
    Empty,
    /// MAX_LOCATOR_SIZE + 1 + n entries, genesis last
    Huge(u8),
    /// n unknown hashes
    UnknownOnly(u8),
    /// n unknown hashes, then the genesis
    UnknownThenGenesis(u8),
}

#[derive(Clone, Copy, Debug, PartialEq, Eq, Serialize, Deserialize)]
pub enum Stop {
    Zero,
    OnChain(u8, u16),
    Unknown,
}

#[derive(Clone, Copy, Debug, PartialEq, Eq, Serialize, Deserialize)]
pub enum Field {
    Version,
    Number,
    EpochMalformed,
    EpochNotSuccessor,
    TimestampOld,
    /// too far in the future: documented as temporarily invalid, not punished
    TimestampNew,
}

#[derive(Clone, Copy, Debug, PartialEq, Eq, Serialize, Deserialize)]
pub enum HKind {
    /// headers of chain c up to height sel, starting right after the highest header the node knows
    FromKnown(u8, u16),
    /// the same starting at height 1 (known headers repeated)
    FromGenesis(u8, u16),
    /// starting g+1 above the highest known header: the first parent is unknown
    Gap(u8, u8),
    Empty,
    /// a valid continuation with two headers swapped / one left out
    NonContinuous(u8, bool),
    /// MAX_HEADERS_LEN + 1 well-formed continuous headers on top of the highest known main header
    TooMany,
    /// the next header of chain c with one field changed
    BadField(u8, Field),
    /// a well-formed header on top of the invalid block
    ChildOfInvalid,
}

#[derive(Clone, Copy, Debug, PartialEq, Eq, Serialize, Deserialize)]
pub enum HashSel {
    Chain(u8, u16),
    Side,
    Invalid,
    Unknown(u8),
    Genesis,
}

#[derive(Clone, Debug, PartialEq, Eq, Serialize, Deserialize)]
pub enum GBKind {
    List(Vec<HashSel>),
    /// the list, its first entry once more at the end
    WithDup(Vec<HashSel>),
    /// MAX_HEADERS_LEN + 1 unknown hashes
    TooMany,
    /// 40 distinct hashes: every main block the node has, then unknown ones
    Many,
}

#[derive(Clone, Copy, Debug, PartialEq, Eq, Serialize, Deserialize)]
pub enum Answer {
    InOrder,
    Reversed,
    FirstHalf,
    /// in order, the first block with a changed body
    TamperFirst,
}

#[derive(Clone, Copy, Debug, PartialEq, Eq, Serialize, Deserialize)]
pub enum SBKind {
    /// a block nobody asked for
    Unsolicited(u8, u16),
    /// a block the node has stored
    Stored(u16),
    /// two extra fields
    ExtraField(u16),
    /// the extension field is not a molecule `Bytes`
    BadExtension(u16),
    /// the invalid block, unasked
    Invalid,
}

#[derive(Clone, Copy, Debug, PartialEq, Eq, Serialize, Deserialize)]
pub enum RawKind {
    Random(u16, u8),
    Empty,
    /// a valid message of kind k, cut after n % len bytes
    Truncated(u8, u16),
    /// a valid message of kind k with bit n % bits flipped
    BitFlip(u8, u32),
    /// a message of the relay protocol's union
    RelayUnion,
    /// a valid message with bytes appended
    Trailing(u8),
}

#[derive(Clone, Debug, PartialEq, Eq, Serialize, Deserialize)]
pub enum Step {
    GetHeaders(u8, Loc, Stop),
    SendHeaders(u8, HKind),
    GetBlocks(u8, GBKind),
    /// `notify(token)`: 0 start header sync, 1 IBD fetch, 2 fetch, 3 eviction
    Tick(u8),
    Answer(u8, Answer),
    SendBlock(u8, SBKind),
    InIBD(u8),
    Raw(u8, RawKind),
    Disconnect(u8),
}

#[derive(Clone, Debug, Serialize, Deserialize)]
pub struct Case {
    pub salt: u32,
    pub main_len: u8,
    /// main blocks imported directly before the session
    pub preload: u8,
    /// side branches (fork height selector, length)
    pub forks: Vec<(u16, u8)>,
    /// parent (main height selector) of the block with a valid header and a wrong DAO field
    pub invalid_at: u16,
    pub peers: u8,
    pub steps: Vec<Step>,
}

fn loc() -> impl Strategy<Value = Loc> {
    prop_oneof![
        12 => (0u8..4, any::<u16>()).prop_map(|(c, s)| Loc::Proper(c, s)),
        2 => (0u8..4, any::<u16>()).prop_map(|(c, s)| Loc::Dup(c, s)),
        2 => (0u8..4, any::<u16>()).prop_map(|(c, s)| Loc::NoGenesisTail(c, s)),
        1 => Just(Loc::Empty),
        1 => (0u8..4).prop_map(Loc::Huge),
        1 => (1u8..5).prop_map(Loc::UnknownOnly),
        2 => (0u8..5).prop_map(Loc::UnknownThenGenesis),
    ]
}

fn stop() -> impl Strategy<Value = Stop> {
    prop_oneof![
        4 => Just(Stop::Zero),
        3 => (0u8..4, any::<u16>()).prop_map(|(c, s)| Stop::OnChain(c, s)),
        1 => Just(Stop::Unknown),
    ]
}

fn field() -> impl Strategy<Value = Field> {
    prop_oneof![
        Just(Field::Version),
        Just(Field::Number),
        Just(Field::EpochMalformed),
        Just(Field::EpochNotSuccessor),
        Just(Field::TimestampOld),
        Just(Field::TimestampNew),
    ]
}

fn hkind() -> impl Strategy<Value = HKind> {
    prop_oneof![
        16 => (0u8..4, prop_oneof![2 => Just(0xffffu16), 1 => any::<u16>()]).prop_map(|(c, s)| HKind::FromKnown(c, s)),
        4 => (0u8..4, any::<u16>()).prop_map(|(c, s)| HKind::FromGenesis(c, s)),
        3 => (0u8..4, 0u8..3).prop_map(|(c, g)| HKind::Gap(c, g)),
        1 => Just(HKind::Empty),
        2 => (0u8..4, any::<bool>()).prop_map(|(c, s)| HKind::NonContinuous(c, s)),
        1 => Just(HKind::TooMany),
        3 => (0u8..4, field()).prop_map(|(c, f)| HKind::BadField(c, f)),
        1 => Just(HKind::ChildOfInvalid),
    ]
}

fn hash_sel() -> impl Strategy<Value = HashSel> {
    prop_oneof![
        10 => (0u8..4, any::<u16>()).prop_map(|(c, s)| HashSel::Chain(c, s)),
        3 => Just(HashSel::Chain(0, 1)),
        2 => Just(HashSel::Side),
        1 => Just(HashSel::Invalid),
        2 => any::<u8>().prop_map(HashSel::Unknown),
    ]
}

fn gbkind() -> impl Strategy<Value = GBKind> {
    prop_oneof![
        12 => proptest::collection::vec(hash_sel(), 0..6).prop_map(GBKind::List),
        1 => proptest::collection::vec(prop_oneof![8 => hash_sel(), 1 => Just(HashSel::Genesis)], 1..5).prop_map(GBKind::List),
        2 => proptest::collection::vec(hash_sel(), 1..4).prop_map(GBKind::WithDup),
        1 => Just(GBKind::TooMany),
        1 => Just(GBKind::Many),
    ]
}

fn answer() -> impl Strategy<Value = Answer> {
    prop_oneof![8 => Just(Answer::InOrder), 4 => Just(Answer::Reversed), 2 => Just(Answer::FirstHalf), 1 => Just(Answer::TamperFirst)]
}

fn sbkind() -> impl Strategy<Value = SBKind> {
    prop_oneof![
        3 => (0u8..4, any::<u16>()).prop_map(|(c, s)| SBKind::Unsolicited(c, s)),
        2 => any::<u16>().prop_map(SBKind::Stored),
        1 => any::<u16>().prop_map(SBKind::ExtraField),
        1 => any::<u16>().prop_map(SBKind::BadExtension),
        1 => Just(SBKind::Invalid),
    ]
}

fn rawkind() -> impl Strategy<Value = RawKind> {
    prop_oneof![
        2 => (0u16..300, any::<u8>()).prop_map(|(n, s)| RawKind::Random(n, s)),
        1 => Just(RawKind::Empty),
        3 => (0u8..5, any::<u16>()).prop_map(|(k, n)| RawKind::Truncated(k, n)),
        4 => (0u8..5, any::<u32>()).prop_map(|(k, n)| RawKind::BitFlip(k, n)),
        1 => Just(RawKind::RelayUnion),
        1 => (0u8..5).prop_map(RawKind::Trailing),
    ]
}

/// the usual round trip of a syncing node: headers, fetch tick, answer
fn sync_round() -> impl Strategy<Value = Vec<Step>> {
    (0u8..3, 0u8..4, prop_oneof![3 => Just(0xffffu16), 1 => any::<u16>()], answer(), any::<bool>()).prop_map(|(p, c, s, a, twice)| {
        let mut v = vec![Step::SendHeaders(p, HKind::FromKnown(c, s)), Step::Tick(2), Step::Answer(p, a)];
        if twice {
            v.push(Step::Tick(2));
            v.push(Step::Answer(p, Answer::InOrder));
        }
        v
    })
}

fn one_step() -> impl Strategy<Value = Vec<Step>> {
    prop_oneof![
        6 => (0u8..3, loc(), stop()).prop_map(|(p, l, s)| vec![Step::GetHeaders(p, l, s)]),
        8 => (0u8..3, hkind()).prop_map(|(p, k)| vec![Step::SendHeaders(p, k)]),
        5 => (0u8..3, gbkind()).prop_map(|(p, k)| vec![Step::GetBlocks(p, k)]),
        5 => prop_oneof![1 => Just(0u8), 1 => Just(1u8), 5 => Just(2u8), 1 => Just(3u8)].prop_map(|t| vec![Step::Tick(t)]),
        6 => (0u8..3, answer()).prop_map(|(p, a)| vec![Step::Answer(p, a)]),
        3 => (0u8..3, sbkind()).prop_map(|(p, k)| vec![Step::SendBlock(p, k)]),
        1 => (0u8..3).prop_map(|p| vec![Step::InIBD(p)]),
        4 => (0u8..3, rawkind()).prop_map(|(p, k)| vec![Step::Raw(p, k)]),
        1 => (0u8..3).prop_map(|p| vec![Step::Disconnect(p)]),
        8 => sync_round(),
    ]
}

pub fn case_strategy() -> impl Strategy<Value = Case> {
    (
        any::<u32>(),
        6u8..=11,
        1u8..=3,
        proptest::collection::vec((any::<u16>(), 1u8..=5), 0..=2),
        any::<u16>(),
        2u8..=3,
        proptest::collection::vec(one_step(), 2..9),
    )
        .prop_map(|(salt, main_len, preload, forks, invalid_at, peers, steps)| Case {
            salt,
            main_len,
            preload,
            forks,
            invalid_at,
            peers,
            steps: steps.into_iter().flatten().collect(),
        })
}

// ------------------------------------------------------------------------------------------------
// the model chains of a case

pub(crate) struct World {
    pub tree: Tree,
    /// chains[0] = main, chains[1..] = side branches, each as the path genesis..=tip
    pub chains: Vec<Vec<H>>,
    /// valid header, wrong DAO field; child of a main block
    pub invalid: H,
    /// sibling of main[preload]: imported after it, stored and never verified
    pub side: H,
    /// number of main blocks the node holds before the session
    pub pre: usize,
    serial: u64,
    salt: u32,
}

fn env() -> &'static Env {
    static E: std::sync::OnceLock<Env> = std::sync::OnceLock::new();
    E.get_or_init(|| build_env(&SpecCfg { genesis_epoch_length: 400, faucet_cells: 4, ..Default::default() }))
}

impl World {
    fn spec(&mut self, parent: &H, kind: u64) -> BlockSpec {
        self.serial += 1;
        let mut message = self.salt.to_le_bytes().to_vec();
        message.extend_from_slice(&self.serial.to_le_bytes());
        let pts = self.tree.get(parent).block.timestamp();
        let want = pts + [1u64, 1000, 8000][(self.serial + kind) as usize % 3];
        BlockSpec {
            timestamp: want.max(self.tree.median_time(parent) + 1),
            miner_lock: Some(lock_variant(env(), (self.serial % 4) as u8)),
            message,
            extension_extra: vec![0xe7; (self.serial % 3) as usize],
            nonce: self.serial as u128,
            ..Default::default()
        }
    }

    fn opts() -> BuildOpts {
        BuildOpts { use_node_reward_quirk: true, ..Default::default() }
    }

    fn extend(&mut self, parent: &H, kind: u64) -> Result<H, String> {
        let s = self.spec(parent, kind);
        let b = self.tree.build(parent, &s, &Self::opts())?;
        Ok(self.tree.insert(b))
    }

    pub fn build(case: &Case) -> Result<World, String> {
        let tree = Tree::new(env().consensus.clone());
        let g = tree.genesis.clone();
        let mut w = World { tree, chains: vec![vec![g.clone()]], invalid: g.clone(), side: g, pre: 1, serial: 0, salt: case.salt };
        let n = case.main_len.clamp(4, 40) as usize;
        for _ in 0..n {
            let p = w.chains[0].last().unwrap().clone();
            let h = w.extend(&p, 0)?;
            w.chains[0].push(h);
        }
        for (j, (at, len)) in case.forks.iter().take(3).enumerate() {
            // fork height f in 0..=n-2, tip height f+len <= n-1: strictly lighter than the main tip
            let f = pick_idx(*at as u32, n - 1);
            let len = (*len as usize).min(n - 1 - f);
            if len == 0 {
                continue;
            }
            let mut path: Vec<H> = w.chains[0][..=f].to_vec();
            for _ in 0..len {
                let p = path.last().unwrap().clone();
                let h = w.extend(&p, 1 + j as u64)?;
                path.push(h);
            }
            w.chains.push(path);
        }
        // the invalid block: child of main[j], 1 <= j <= n-1
        let j = 1 + pick_idx(case.invalid_at as u32, n - 1);
        let p = w.chains[0][j].clone();
        let s = w.spec(&p, 5);
        let mut o = Self::opts();
        o.dao_delta = [1, 0, 0, 0];
        let mut xb = w.tree.build(&p, &s, &o)?;
        xb.invalid = Some("dao field".into());
        w.invalid = w.tree.insert(xb);
        let pre = (case.preload.clamp(1, 3) as usize).min(n - 2);
        w.pre = pre;
        let sp = w.chains[0][pre - 1].clone();
        w.side = w.extend(&sp, 7)?;
        Ok(w)
    }

    pub fn block(&self, h: &H) -> BlockView {
        self.tree.get(h).block.clone()
    }

    fn chain(&self, c: u8) -> &Vec<H> {
        &self.chains[c as usize % self.chains.len()]
    }

    /// chain selector including the chain that ends in the invalid block
    fn chain_x(&self, c: u8) -> Vec<H> {
        let k = c as usize % (self.chains.len() + 1);
        if k < self.chains.len() {
            self.chains[k].clone()
        } else {
            self.tree.path(&self.invalid).iter().map(|b| b.hash.clone()).collect()
        }
    }
}

pub(crate) fn locator_of(path: &[H], h: usize) -> Vec<H> {
    let mut v = vec![];
    let mut step = 1i64;
    let mut i = h as i64;
    while i > 0 {
        v.push(path[i as usize].clone());
        if v.len() >= 10 {
            step *= 2;
        }
        i -= step;
    }
    v.push(path[0].clone());
    v
}

fn unknown_hash(salt: u32, k: u64) -> H {
    let mut b = [0u8; 32];
    b[..8].copy_from_slice(&fxhash64(&(salt, k, "unknown")).to_le_bytes());
    b[8..16].copy_from_slice(&fxhash64(&(k, salt, "unknown2")).to_le_bytes());
    b[31] = 0x5a;
    Byte32::new(b)
}

fn next_epoch(e: EpochNumberWithFraction) -> EpochNumberWithFraction {
    if e.index() + 1 < e.length() {
        EpochNumberWithFraction::new(e.number(), e.index() + 1, e.length())
    } else {
        EpochNumberWithFraction::new(e.number() + 1, 0, e.length())
    }
}

/// a well-formed header (number, epoch successor, timestamp + 1 ms) on top of `parent`
fn fabricate_child(parent: &HeaderView, tag: u64) -> HeaderView {
    HeaderBuilder::default()
        .parent_hash(parent.hash())
        .number(parent.number() + 1)
        .timestamp(parent.timestamp() + 1)
        .epoch(next_epoch(parent.epoch()))
        .compact_target(parent.compact_target())
        .nonce(tag as u128)
        .build()
}

/// append a field to a molecule table
fn table_push_field(table: &[u8], field: &[u8]) -> Vec<u8> {
    let total = u32::from_le_bytes(table[0..4].try_into().unwrap()) as usize;
    let n = if total == 4 { 0 } else { u32::from_le_bytes(table[4..8].try_into().unwrap()) as usize / 4 - 1 };
    let mut out = vec![];
    out.extend_from_slice(&((total + 4 + field.len()) as u32).to_le_bytes());
    for i in 0..n {
        let o = u32::from_le_bytes(table[4 + 4 * i..8 + 4 * i].try_into().unwrap());
        out.extend_from_slice(&(o + 4).to_le_bytes());
    }
    out.extend_from_slice(&((total + 4) as u32).to_le_bytes());
    out.extend_from_slice(&table[4 + 4 * n..total]);
    out.extend_from_slice(field);
    out
}

/// SyncMessage(SendBlock) around raw block bytes
fn send_block_raw(block: &[u8]) -> NBytes {
    let id = packed::SyncMessage::new_builder().set(packed::SendBlock::default()).build().as_slice()[..4].to_vec();
    let mut out = id;
    out.extend_from_slice(&((8 + block.len()) as u32).to_le_bytes());
    out.extend_from_slice(&8u32.to_le_bytes());
    out.extend_from_slice(block);
    NBytes::from(out)
}

fn msg_get_headers(loc: Vec<H>, stop: H) -> NBytes {
    let c = packed::GetHeaders::new_builder().hash_stop(stop).block_locator_hashes(loc).build();
    packed::SyncMessage::new_builder().set(c).build().as_bytes()
}

fn msg_send_headers(hs: &[HeaderView]) -> NBytes {
    let c = packed::SendHeaders::new_builder().headers(hs.iter().map(|h| h.data()).collect::<Vec<_>>()).build();
    packed::SyncMessage::new_builder().set(c).build().as_bytes()
}

fn msg_get_blocks(hs: Vec<H>) -> NBytes {
    let c = packed::GetBlocks::new_builder().block_hashes(hs).build();
    packed::SyncMessage::new_builder().set(c).build().as_bytes()
}

fn msg_send_block(b: &BlockView) -> NBytes {
    let c = packed::SendBlock::new_builder().block(b.data()).build();
    packed::SyncMessage::new_builder().set(c).build().as_bytes()
}

fn msg_in_ibd() -> NBytes {
    packed::SyncMessage::new_builder().set(packed::InIBD::new_builder().build()).build().as_bytes()
}

// ------------------------------------------------------------------------------------------------
// recording protocol context

#[derive(Clone, Debug)]
enum Out {
    Msg { peer: PeerIndex, data: NBytes },
    Ban { peer: PeerIndex, reason: String },
    Disconnect { peer: PeerIndex },
}

pub struct Net {
    handle: Handle,
    log: Mutex<Vec<Out>>,
    connected: Mutex<Vec<PeerIndex>>,
}

type Task = Pin<Box<dyn Future<Output = ()> + 'static + Send>>;

impl Net {
    fn push(&self, o: Out) {
        self.log.lock().unwrap().push(o);
    }
    fn targets(&self, t: TargetSession) -> Vec<PeerIndex> {
        let all = self.connected.lock().unwrap().clone();
        match t {
            TargetSession::All => all,
            TargetSession::Single(p) => vec![p],
            TargetSession::Multi(it) => it.collect(),
            TargetSession::Filter(mut f) => all.into_iter().filter(|p| f(p)).collect(),
        }
    }
    fn bcast(&self, t: TargetSession, data: NBytes) {
        for peer in self.targets(t) {
            self.push(Out::Msg { peer, data: data.clone() });
        }
    }
}

#[async_trait]
impl CKBProtocolContext for Net {
    async fn set_notify(&self, _interval: Duration, _token: u64) -> Result<(), NetError> {
        Ok(())
    }
    async fn remove_notify(&self, _token: u64) -> Result<(), NetError> {
        Ok(())
    }
    async fn async_quick_send_message(&self, _p: ProtocolId, peer: PeerIndex, data: NBytes) -> Result<(), NetError> {
        self.push(Out::Msg { peer, data });
        Ok(())
    }
    async fn async_quick_send_message_to(&self, peer: PeerIndex, data: NBytes) -> Result<(), NetError> {
        self.push(Out::Msg { peer, data });
        Ok(())
    }
    async fn async_quick_filter_broadcast(&self, target: TargetSession, data: NBytes) -> Result<(), NetError> {
        self.bcast(target, data);
        Ok(())
    }
    async fn async_future_task(&self, task: Task, _blocking: bool) -> Result<(), NetError> {
        self.handle.spawn(task);
        Ok(())
    }
    async fn async_send_message(&self, _p: ProtocolId, peer: PeerIndex, data: NBytes) -> Result<(), NetError> {
        self.push(Out::Msg { peer, data });
        Ok(())
    }
    async fn async_send_message_to(&self, peer: PeerIndex, data: NBytes) -> Result<(), NetError> {
        self.push(Out::Msg { peer, data });
        Ok(())
    }
    async fn async_filter_broadcast(&self, target: TargetSession, data: NBytes) -> Result<(), NetError> {
        self.bcast(target, data);
        Ok(())
    }
    async fn async_filter_broadcast_with_proto(&self, _p: ProtocolId, target: TargetSession, data: NBytes) -> Result<(), NetError> {
        self.bcast(target, data);
        Ok(())
    }
    async fn async_quick_filter_broadcast_with_proto(&self, _p: ProtocolId, target: TargetSession, data: NBytes) -> Result<(), NetError> {
        self.bcast(target, data);
        Ok(())
    }
    async fn async_disconnect(&self, peer: PeerIndex, _message: &str) -> Result<(), NetError> {
        self.push(Out::Disconnect { peer });
        Ok(())
    }
    fn quick_send_message(&self, _p: ProtocolId, peer: PeerIndex, data: NBytes) -> Result<(), NetError> {
        self.push(Out::Msg { peer, data });
        Ok(())
    }
    fn quick_send_message_to(&self, peer: PeerIndex, data: NBytes) -> Result<(), NetError> {
        self.push(Out::Msg { peer, data });
        Ok(())
    }
    fn quick_filter_broadcast(&self, target: TargetSession, data: NBytes) -> Result<(), NetError> {
        self.bcast(target, data);
        Ok(())
    }
    fn quick_filter_broadcast_with_proto(&self, _p: ProtocolId, target: TargetSession, data: NBytes) -> Result<(), NetError> {
        self.bcast(target, data);
        Ok(())
    }
    fn future_task(&self, task: Task, _blocking: bool) -> Result<(), NetError> {
        self.handle.spawn(task);
        Ok(())
    }
    fn send_message(&self, _p: ProtocolId, peer: PeerIndex, data: NBytes) -> Result<(), NetError> {
        self.push(Out::Msg { peer, data });
        Ok(())
    }
    fn send_message_to(&self, peer: PeerIndex, data: NBytes) -> Result<(), NetError> {
        self.push(Out::Msg { peer, data });
        Ok(())
    }
    fn filter_broadcast(&self, target: TargetSession, data: NBytes) -> Result<(), NetError> {
        self.bcast(target, data);
        Ok(())
    }
    fn disconnect(&self, peer: PeerIndex, _message: &str) -> Result<(), NetError> {
        self.push(Out::Disconnect { peer });
        Ok(())
    }
    fn get_peer(&self, _peer_index: PeerIndex) -> Option<Peer> {
        None
    }
    fn with_peer_mut(&self, _peer_index: PeerIndex, _f: Box<dyn FnOnce(&mut Peer)>) {}
    fn connected_peers(&self) -> Vec<PeerIndex> {
        self.connected.lock().unwrap().clone()
    }
    fn full_relay_connected_peers(&self) -> Vec<PeerIndex> {
        self.connected.lock().unwrap().clone()
    }
    fn report_peer(&self, _peer_index: PeerIndex, _behaviour: Behaviour) {}
    fn ban_peer(&self, peer: PeerIndex, _duration: Duration, reason: String) {
        self.push(Out::Ban { peer, reason });
    }
    fn protocol_id(&self) -> ProtocolId {
        SupportProtocols::Sync.protocol_id()
    }
}

// ------------------------------------------------------------------------------------------------
// node with a synchronizer

const RT_WORKERS: usize = 3;

struct YNode {
    shared: Shared,
    chain: Option<ChainServiceScope>,
    runtime: Option<tokio::runtime::Runtime>,
    sync: Option<Synchronizer>,
    net: Arc<Net>,
    handle: Handle,
    /// drives the handler futures from the check's thread (`block_in_place` needs the multi-thread flavour)
    rt: tokio::runtime::Runtime,
    _network: NetworkController,
    _tmp: tempfile::TempDir,
}

fn dummy_network(shared: &Shared, dir: &std::path::Path) -> NetworkController {
    let config = NetworkConfig {
        max_peers: 19,
        max_outbound_peers: 5,
        path: dir.join("network"),
        ping_interval_secs: 15,
        ping_timeout_secs: 20,
        connect_outbound_interval_secs: 1,
        discovery_local_address: true,
        bootnode_mode: true,
        reuse_port_on_linux: true,
        ..Default::default()
    };
    let network_state = Arc::new(NetworkState::from_config(config).expect("Init network state failed"));
    NetworkService::new(
        network_state,
        vec![],
        vec![],
        (shared.consensus().identify_name(), "verif".to_string(), Flags::COMPATIBILITY),
        TransportType::Tcp,
    )
    .start(shared.async_handle())
    .expect("Start network service failed")
}

impl YNode {
    fn start(env: &Env) -> Result<YNode, String> {
        let tmp = scratch("vc16y-");
        let dir = tmp.path().to_path_buf();
        let (handle, _stop_rx, runtime) = new_global_runtime(Some(RT_WORKERS));
        let db_config = DBConfig { path: dir.join("db"), ..Default::default() };
        let tx_pool = default_tx_pool_config(&dir);
        std::fs::create_dir_all(dir.join("header_map")).map_err(|e| e.to_string())?;
        let builder = SharedBuilder::new("vcheck", &dir, &db_config, None, handle.clone(), (*env.consensus).clone())
            .map_err(|e| format!("SharedBuilder::new failed: {e:?}"))?;
        let (shared, mut pack) = builder
            .tx_pool_config(tx_pool)
            .header_map_tmp_dir(Some(dir.join("header_map")))
            .build()
            .map_err(|e| format!("SharedBuilder::build failed: {e:?}"))?;
        let network = dummy_network(&shared, &dir);
        pack.take_tx_pool_builder().start(network.clone());
        let chain = ChainServiceScope::new(pack.take_chain_services_builder());
        let t0 = Instant::now();
        while chain.chain_controller().is_verifying_unverified_blocks_on_startup() {
            if t0.elapsed() > Duration::from_secs(60) {
                return Err("start-up verification of stored blocks did not finish in 60 s".into());
            }
            std::thread::sleep(Duration::from_millis(1));
        }
        let sync_shared = Arc::new(SyncShared::new(shared.clone(), Default::default(), pack.take_relay_tx_receiver()));
        let sync = Synchronizer::new(chain.chain_controller().clone(), Arc::clone(&sync_shared));
        let net = Arc::new(Net { handle: handle.clone(), log: Mutex::new(vec![]), connected: Mutex::new(vec![]) });
        let rt = tokio::runtime::Builder::new_multi_thread().worker_threads(1).enable_all().build().map_err(|e| e.to_string())?;
        Ok(YNode { shared, chain: Some(chain), runtime: Some(runtime), sync: Some(sync), net, handle, rt, _network: network, _tmp: tmp })
    }

    fn chain(&self) -> &ChainController {
        self.chain.as_ref().unwrap().chain_controller()
    }
    fn nc(&self) -> Arc<dyn CKBProtocolContext + Sync> {
        self.net.clone()
    }
    fn status(&self, h: &H) -> BlockStatus {
        self.shared.get_block_status(h)
    }
    fn tip(&self) -> H {
        self.shared.snapshot().tip_hash()
    }
    fn process(&self, b: &BlockView) -> Result<bool, String> {
        self.chain().blocking_process_block(Arc::new(b.clone())).map_err(|e| e.to_string())
    }

    /// FIFO barrier through the chain threads: re-deliver a verified block, twice
    fn barrier(&self, anchor: &BlockView) -> Verdict {
        for _ in 0..2 {
            let (tx, rx) = mpsc::channel();
            self.chain().asynchronous_process_lonely_block(LonelyBlock {
                block: Arc::new(anchor.clone()),
                switch: None,
                verify_callback: Some(Box::new(move |_| {
                    let _ = tx.send(());
                })),
            });
            if rx.recv_timeout(Duration::from_secs(60)).is_err() {
                node_panic_violation()?;
                return Err(Violation::new("harness:barrier-timeout", "barrier block callback did not fire in 60 s"));
            }
        }
        Ok(())
    }

    /// every task put on the node's runtime before this call has run.  The handlers send their
    /// replies from spawned tasks that never wait.  One round holds all workers of the runtime in a
    /// rendezvous at once; a worker may take a marker from the global queue while an older task
    /// still sits in its local queue (it runs right after the release), so rounds are repeated
    /// until a round passes in which nothing was logged and the global queue is empty.
    fn flush(&self) -> Verdict {
        let metrics = self.handle.clone().into_inner().metrics();
        let mut quiet = 0;
        for _round in 0..200 {
            let before = self.net.log.lock().unwrap().len();
            self.rendezvous()?;
            let after = self.net.log.lock().unwrap().len();
            if after == before && metrics.global_queue_depth() == 0 {
                quiet += 1;
                if quiet >= 2 {
                    return Ok(());
                }
            } else {
                quiet = 0;
            }
        }
        Err(Violation::new("harness:flush-never-quiet", "the node kept sending for 200 rendezvous rounds"))
    }

    fn rendezvous(&self) -> Verdict {
        let arrived = Arc::new(AtomicUsize::new(0));
        let release = Arc::new(AtomicBool::new(false));
        for _ in 0..RT_WORKERS {
            let (a, r) = (arrived.clone(), release.clone());
            self.handle.spawn(async move {
                a.fetch_add(1, Ordering::SeqCst);
                let t0 = Instant::now();
                while !r.load(Ordering::SeqCst) && t0.elapsed() < Duration::from_secs(90) {
                    std::thread::yield_now();
                }
            });
        }
        let t0 = Instant::now();
        while arrived.load(Ordering::SeqCst) < RT_WORKERS {
            if t0.elapsed() > Duration::from_secs(60) {
                release.store(true, Ordering::SeqCst);
                node_panic_violation()?;
                return Err(Violation::new("harness:flush-timeout", "runtime rendezvous not reached in 60 s"));
            }
            std::thread::yield_now();
        }
        release.store(true, Ordering::SeqCst);
        Ok(())
    }

    fn stop(mut self) {
        self.sync.take();
        if let Some(c) = self.chain.take() {
            drop(c);
        }
        if let Some(rt) = self.runtime.take() {
            rt.shutdown_timeout(Duration::from_secs(5));
        }
    }
}

// ------------------------------------------------------------------------------------------------
// the run of a case

struct PeerSt {
    idx: PeerIndex,
    connected: bool,
    /// sent something the handlers document as punishable (or bytes of unknown meaning)
    dirty: bool,
    banned: bool,
    /// hashes the node asked this peer for (GetBlocks), not yet delivered
    reqs: Vec<H>,
    last: String,
}

#[derive(Default)]
struct Replies {
    headers: Vec<(PeerIndex, Vec<HeaderView>)>,
    blocks: Vec<(PeerIndex, packed::Block)>,
}

struct Run<'a> {
    w: &'a World,
    node: YNode,
    anchor: BlockView,
    peers: Vec<PeerSt>,
    next_idx: usize,
    log_pos: usize,
    /// blocks handed to the node in full and taken by it (imported directly, or sent while asked for)
    have: HashSet<H>,
    /// blocks that were part of the node's main chain at some quiescent point
    ever_main: HashSet<H>,
    /// headers given to the node in a valid SendHeaders (and everything it stores)
    hk: HashSet<H>,
    fabricated: HashMap<H, HeaderView>,
    x_delivered: bool,
    rejected: u32,
    advanced_after_reject: bool,
    /// a genuine header was sent while its parent was unknown
    early_header: Option<H>,
    last_tip: Option<H>,
}

fn trace_on() -> bool {
    static T: std::sync::OnceLock<bool> = std::sync::OnceLock::new();
    *T.get_or_init(|| std::env::var_os("VERIF_C16Y_TRACE").is_some())
}

macro_rules! trace {
    ($($arg:tt)*) => {
        if trace_on() {
            eprintln!("[sync-session] {}", format!($($arg)*));
        }
    };
}

fn ban_code(reason: &str) -> String {
    let r = reason.split(|c| c == '(' || c == ':').next().unwrap_or("").trim();
    r.split_whitespace().take(6).collect::<Vec<_>>().join("-")
}

fn max_frame() -> usize {
    SupportProtocols::Sync.max_frame_length()
}

impl<'a> Run<'a> {
    fn td(&self, h: &H) -> ckb_types::U256 {
        self.w.tree.get(h).td.clone()
    }

    fn short(&self, h: &H) -> String {
        match self.w.tree.blocks.get(h) {
            Some(b) if *h == self.w.invalid => format!("X#{}", b.number),
            Some(b) if *h == self.w.side => format!("S#{}", b.number),
            Some(b) => {
                let c = self.w.chains.iter().position(|c| c.get(b.number as usize) == Some(h)).unwrap_or(99);
                format!("c{c}#{}", b.number)
            }
            None if self.fabricated.contains_key(h) => "fabricated".into(),
            None => "unknown".into(),
        }
    }

    // ---- handler calls ------------------------------------------------------------------------------

    fn call<R>(&mut self, stage: &str, f: impl FnOnce(&mut Synchronizer, Arc<dyn CKBProtocolContext + Sync>, &tokio::runtime::Runtime) -> R) -> Result<R, Violation> {
        let nc = self.node.nc();
        let mut sy = self.node.sync.take().expect("synchronizer");
        let rt = &self.node.rt;
        let r = guard("sync-session", stage, || f(&mut sy, nc, rt));
        self.node.sync = Some(sy);
        let r = r?;
        self.node.flush()?;
        node_panic_violation()?;
        Ok(r)
    }

    fn deliver(&mut self, k: usize, kind: &str, data: NBytes) -> Verdict {
        let peer = self.peers[k].idx;
        self.peers[k].last = kind.to_string();
        trace!("peer {peer} -> node: {kind} ({} bytes)", data.len());
        let ok = self.call(kind, |sy, nc, rt| {
            rt.block_on(async { tokio::time::timeout(Duration::from_secs(60), sy.received(nc, peer, data)).await.is_ok() })
        })?;
        if !ok {
            return Err(Violation::new("session:handler-did-not-return", format!("Synchronizer::received({kind}) did not return within 60 s")));
        }
        Ok(())
    }

    fn connect(&mut self, k: usize) -> Verdict {
        let idx = PeerIndex::new(self.next_idx);
        self.next_idx += 1;
        self.node.net.connected.lock().unwrap().push(idx);
        self.call("connected", |sy, nc, rt| rt.block_on(sy.connected(nc, idx, "3")))?;
        let st = PeerSt { idx, connected: true, dirty: false, banned: false, reqs: vec![], last: String::new() };
        if k < self.peers.len() {
            self.peers[k] = st;
        } else {
            self.peers.push(st);
        }
        trace!("peer slot {k} connected as {idx}");
        Ok(())
    }

    fn disconnect(&mut self, k: usize) -> Verdict {
        if !self.peers[k].connected {
            return Ok(());
        }
        let idx = self.peers[k].idx;
        self.node.net.connected.lock().unwrap().retain(|p| *p != idx);
        self.call("disconnected", |sy, nc, rt| rt.block_on(sy.disconnected(nc, idx)))?;
        self.peers[k].connected = false;
        self.peers[k].reqs.clear();
        trace!("peer {idx} disconnected");
        Ok(())
    }

    /// slot of scripted peer p, reconnected under a new index if it was banned / disconnected
    fn slot(&mut self, p: u8, n: usize, st: &mut Stats) -> Result<usize, Violation> {
        let k = p as usize % n;
        if !self.peers[k].connected || self.peers[k].banned {
            self.disconnect(k)?;
            self.connect(k)?;
            st.label("peer:reconnected-under-new-index");
        }
        Ok(k)
    }

    // ---- log -----------------------------------------------------------------------------------------

    fn drain(&mut self, st: &mut Stats) -> Result<Replies, Violation> {
        let entries: Vec<Out> = {
            let g = self.node.net.log.lock().unwrap();
            g[self.log_pos..].to_vec()
        };
        self.log_pos += entries.len();
        let mut rep = Replies::default();
        let mut to_disconnect = vec![];
        for e in entries {
            match e {
                Out::Msg { peer, data } => {
                    if data.len() > max_frame() {
                        vfail!("bound:message-exceeds-frame-limit", "a message of {} bytes to {peer} (limit {})", data.len(), max_frame());
                    }
                    let m = match packed::SyncMessage::from_compatible_slice(&data) {
                        Ok(m) => m,
                        Err(e) => vfail!("reply:not-a-sync-message", "message to {peer} does not decode: {e}"),
                    };
                    match m.to_enum() {
                        packed::SyncMessageUnion::GetHeaders(g) => {
                            st.label("node-sent:GetHeaders");
                            if g.block_locator_hashes().len() > MAX_LOCATOR_SIZE {
                                vfail!("bound:own-locator-too-long", "GetHeaders of the node with {} locator hashes", g.block_locator_hashes().len());
                            }
                        }
                        packed::SyncMessageUnion::GetBlocks(g) => {
                            st.label("node-sent:GetBlocks");
                            let hs: Vec<H> = g.block_hashes().into_iter().collect();
                            trace!("node -> {peer}: GetBlocks {:?}", hs.iter().map(|h| self.short(h)).collect::<Vec<_>>());
                            if hs.len() > INIT_BLOCKS_IN_TRANSIT_PER_PEER {
                                vfail!("bound:own-getblocks-too-long", "GetBlocks of the node with {} hashes", hs.len());
                            }
                            for h in &hs {
                                if !self.hk.contains(h) && !self.fabricated.contains_key(h) && self.early_header.as_ref() != Some(h) {
                                    vfail!("request:block-whose-header-was-never-accepted", "GetBlocks to {peer} names {h} ({})", self.short(h));
                                }
                            }
                            match self.peers.iter_mut().find(|p| p.idx == peer && p.connected) {
                                Some(p) => p.reqs.extend(hs),
                                None => st.label("node-sent:GetBlocks-to-gone-peer"),
                            }
                        }
                        packed::SyncMessageUnion::SendHeaders(s) => {
                            let hs: Vec<HeaderView> = s.headers().into_iter().map(|h| h.into_view()).collect();
                            rep.headers.push((peer, hs));
                        }
                        packed::SyncMessageUnion::SendBlock(s) => rep.blocks.push((peer, s.block())),
                        packed::SyncMessageUnion::InIBD(_) => {
                            vfail!("reply:in-ibd-although-synced", "the node told {peer} it is in IBD; the case keeps the tip recent");
                        }
                    }
                }
                Out::Ban { peer, reason } => {
                    let code = ban_code(&reason);
                    trace!("node bans {peer}: {reason:.120}");
                    st.label(&format!("ban:{code}"));
                    self.rejected += 1;
                    if let Some(k) = self.peers.iter().position(|p| p.idx == peer) {
                        if !self.peers[k].dirty {
                            vfail!(
                                format!("ban:peer-that-sent-only-valid-data:{}:{code}", self.peers[k].last),
                                "peer {peer} was banned ({reason:.300}); everything it sent was valid, last message {}",
                                self.peers[k].last
                            );
                        }
                        self.peers[k].banned = true;
                        to_disconnect.push(k);
                    }
                }
                Out::Disconnect { peer } => {
                    st.label("node-disconnects-peer");
                    if let Some(k) = self.peers.iter().position(|p| p.idx == peer) {
                        to_disconnect.push(k);
                    }
                }
            }
        }
        for k in to_disconnect {
            self.disconnect(k)?;
        }
        Ok(rep)
    }

    fn no_replies(&self, rep: &Replies, after: &str) -> Verdict {
        if let Some((p, hs)) = rep.headers.first() {
            vfail!(format!("reply:unexpected-SendHeaders:after-{after}"), "SendHeaders with {} headers to {p}", hs.len());
        }
        if let Some((p, b)) = rep.blocks.first() {
            vfail!(format!("reply:unexpected-SendBlock:after-{after}"), "SendBlock {} to {p}", b.header().into_view().hash());
        }
        Ok(())
    }

    // ---- state clauses ---------------------------------------------------------------------------------

    fn connected_valid(&self, h: &H) -> bool {
        self.w.tree.path(h).iter().all(|b| self.have.contains(&b.hash) && b.invalid.is_none())
    }

    fn check_tip(&mut self, st: &mut Stats, at: &str) -> Verdict {
        let tip = self.node.tip();
        if !self.w.tree.blocks.contains_key(&tip) {
            vfail!("tip:block-the-model-never-built", "{at}: tip {tip}");
        }
        if tip == self.w.invalid {
            vfail!("tip:invalid-block-attached", "{at}: the block with the wrong DAO field is the tip");
        }
        if !self.connected_valid(&tip) {
            vfail!("tip:block-never-delivered", "{at}: tip {} has an ancestor (or is a block) the node was never given", self.short(&tip));
        }
        let best = self.have.iter().filter(|h| self.connected_valid(h)).map(|h| self.td(h)).max().unwrap_or_default();
        if self.td(&tip) != best {
            let b: Vec<String> = self.have.iter().filter(|h| self.connected_valid(h) && self.td(h) == best).map(|h| self.short(h)).collect();
            vfail!(
                "tip:not-the-heaviest-delivered-valid-block",
                "{at}: tip {} (status {:?}); heavier delivered valid blocks: {b:?} (status {:?})",
                self.short(&tip),
                self.node.status(&tip),
                self.have.iter().filter(|h| self.connected_valid(h) && self.td(h) == best).map(|h| self.node.status(h)).collect::<Vec<_>>()
            );
        }
        if let Some(last) = self.last_tip.clone() {
            if last != tip {
                st.label(if self.w.tree.is_ancestor(&last, &tip) { "tip:advanced" } else { "tip:switched-to-another-branch" });
            }
        }
        self.last_tip = Some(tip.clone());
        let before = self.ever_main.len();
        for b in self.w.tree.path(&tip) {
            self.ever_main.insert(b.hash.clone());
        }
        if self.ever_main.len() > before && self.rejected > 0 && before > 0 {
            self.advanced_after_reject = true;
        }
        Ok(())
    }

    /// a full block reaches the node
    fn send_block(&mut self, k: usize, h: &H, st: &mut Stats) -> Verdict {
        let b = self.w.block(h);
        let asked = self.peers.iter().any(|p| p.connected && p.reqs.contains(h));
        if *h == self.w.invalid {
            self.peers[k].dirty = true;
        }
        self.deliver(k, "SendBlock", msg_send_block(&b))?;
        self.node.barrier(&self.anchor)?;
        self.node.flush()?;
        if asked {
            for p in self.peers.iter_mut() {
                p.reqs.retain(|x| x != h);
            }
            self.have.insert(h.clone());
            if *h == self.w.invalid {
                self.x_delivered = true;
                st.label("block:invalid-delivered-on-request");
            } else {
                st.label("block:valid-delivered-on-request");
            }
            if self.connected_valid(h) && !self.node.status(h).contains(BlockStatus::BLOCK_STORED) {
                vfail!(
                    "block:requested-valid-block-not-stored",
                    "{} was asked for, sent by {}, its ancestors are all delivered; status {:?}",
                    self.short(h),
                    self.peers[k].idx,
                    self.node.status(h)
                );
            }
            // orphans that became connected
            let conn: Vec<H> = self.have.iter().filter(|x| self.connected_valid(x)).cloned().collect();
            for x in conn {
                if !self.node.status(&x).contains(BlockStatus::BLOCK_STORED) {
                    vfail!("block:connected-delivered-block-not-stored", "{} status {:?} after {} arrived", self.short(&x), self.node.status(&x), self.short(h));
                }
            }
        } else {
            st.label("block:sent-unasked");
        }
        let rep = self.drain(st)?;
        self.no_replies(&rep, "SendBlock")?;
        self.check_tip(st, "after SendBlock")
    }

    // ---- steps -----------------------------------------------------------------------------------------

    fn known_upto(&self, chain: &[H]) -> usize {
        (0..chain.len()).rev().find(|i| self.hk.contains(&chain[*i])).unwrap_or(0)
    }

    fn header(&self, h: &H) -> HeaderView {
        self.w.tree.get(h).block.header()
    }

    fn step_get_headers(&mut self, k: usize, l: Loc, s: Stop, st: &mut Stats) -> Verdict {
        let w = self.w;
        let g = w.tree.genesis.clone();
        let salt = w.salt;
        let (loc, genuine): (Vec<H>, bool) = match l {
            Loc::Proper(c, sel) => {
                let ch = w.chain_x(c);
                (locator_of(&ch, pick_idx(sel as u32, ch.len())), true)
            }
            Loc::Dup(c, sel) => {
                let ch = w.chain_x(c);
                (locator_of(&ch, pick_idx(sel as u32, ch.len())).into_iter().flat_map(|h| [h.clone(), h]).collect(), true)
            }
            Loc::NoGenesisTail(c, sel) => {
                let ch = w.chain_x(c);
                let mut v = locator_of(&ch, pick_idx(sel as u32, ch.len()));
                v.pop();
                (v, false)
            }
            Loc::Empty => (vec![], false),
            Loc::Huge(n) => {
                let mut v: Vec<H> = (0..(MAX_LOCATOR_SIZE + n as usize) as u64).map(|i| unknown_hash(salt, i)).collect();
                v.push(g.clone());
                (v, false)
            }
            Loc::UnknownOnly(n) => ((0..n as u64).map(|i| unknown_hash(salt, 100 + i)).collect(), false),
            Loc::UnknownThenGenesis(n) => {
                let mut v: Vec<H> = (0..n as u64).map(|i| unknown_hash(salt, 200 + i)).collect();
                v.push(g.clone());
                (v, true)
            }
        };
        let stop = match s {
            Stop::Zero => Byte32::zero(),
            Stop::OnChain(c, sel) => {
                let ch = w.chain(c);
                ch[pick_idx(sel as u32, ch.len())].clone()
            }
            Stop::Unknown => unknown_hash(salt, 999),
        };
        let answerable = !loc.is_empty() && loc.len() <= MAX_LOCATOR_SIZE && loc.last() == Some(&g);
        if !answerable {
            self.peers[k].dirty = true;
        }
        st.label(&format!("GetHeaders:locator:{}", format!("{l:?}").split('(').next().unwrap_or("")));
        let tip = self.node.tip();
        let main: Vec<H> = w.tree.path(&tip).iter().map(|b| b.hash.clone()).collect();
        let on_main = |h: &H| w.tree.blocks.get(h).map(|b| main.get(b.number as usize) == Some(h)).unwrap_or(false);
        let peer = self.peers[k].idx;
        self.deliver(k, "GetHeaders", msg_get_headers(loc.clone(), stop.clone()))?;
        let rep = self.drain(st)?;
        if let Some((p, b)) = rep.blocks.first() {
            vfail!("reply:unexpected-SendBlock:after-GetHeaders", "SendBlock {} to {p}", b.header().into_view().hash());
        }
        if !answerable {
            if let Some((_, hs)) = rep.headers.first() {
                vfail!("getheaders:unanswerable-locator-answered", "locator {l:?} ({} entries) drew SendHeaders with {} headers", loc.len(), hs.len());
            }
            st.label("GetHeaders:unanswerable-unanswered");
            return Ok(());
        }
        if rep.headers.len() != 1 || rep.headers[0].0 != peer {
            vfail!("getheaders:not-exactly-one-reply", "locator {l:?}: {} SendHeaders replies ({:?})", rep.headers.len(), rep.headers.iter().map(|r| r.0).collect::<Vec<_>>());
        }
        let hs = &rep.headers[0].1;
        if hs.len() > MAX_HEADERS_LEN {
            vfail!("getheaders:reply-longer-than-MAX_HEADERS_LEN", "{} headers", hs.len());
        }
        // s_lo: the first locator entry (in order) on the node's main chain; s_hi: the latest block
        // the locator's entries share with the main chain
        let s_lo = loc.iter().find(|h| on_main(h)).map(|h| w.tree.get(h).number as usize).unwrap_or(0);
        let mut s_hi = 0usize;
        for e in &loc {
            if w.tree.blocks.contains_key(e) {
                for b in w.tree.path(e).iter().rev() {
                    if on_main(&b.hash) {
                        s_hi = s_hi.max(b.number as usize);
                        break;
                    }
                }
            }
        }
        let hi_listed = loc.contains(&main[s_hi]);
        let start = match hs.first() {
            Some(f) => {
                let n = f.number() as usize;
                if n == 0 || n >= main.len() || main[n] != f.hash() {
                    vfail!("getheaders:reply-header-not-on-main-chain", "first header #{n} {} is not main-chain block #{n}", f.hash());
                }
                n - 1
            }
            None => s_hi,
        };
        if start < s_lo || start > s_hi || (genuine && hi_listed && start != s_hi) {
            vfail!(
                "getheaders:reply-does-not-start-after-latest-common-block",
                "locator {l:?} {:?}: reply starts after #{start}; first listed main-chain entry #{s_lo}, latest common block #{s_hi} (listed: {hi_listed}); tip #{}",
                loc.iter().map(|h| self.short(h)).collect::<Vec<_>>(),
                main.len() - 1
            );
        }
        let full: Vec<H> = main[start + 1..].iter().take(MAX_HEADERS_LEN).cloned().collect();
        let got: Vec<H> = hs.iter().map(|h| h.hash()).collect();
        let cut = full.iter().position(|h| *h == stop);
        let ok = match cut {
            None => got == full,
            Some(c) => got == full[..c] || got == full[..=c],
        };
        if !ok {
            vfail!(
                "getheaders:reply-is-not-the-main-chain-segment",
                "locator {l:?}, stop {}: after #{start} expected {:?} (cut at {cut:?}), got {:?}",
                self.short(&stop),
                full.iter().map(|h| self.short(h)).collect::<Vec<_>>(),
                got.iter().map(|h| self.short(h)).collect::<Vec<_>>()
            );
        }
        for (a, b) in hs.iter().zip(full.iter()) {
            if a.data().as_slice() != self.header(b).data().as_slice() {
                vfail!("getheaders:reply-header-bytes-differ", "header {} differs from the model's", b);
            }
        }
        st.label(&format!("GetHeaders:answered:{}", if got.is_empty() { "empty" } else if start == 0 { "from-genesis" } else { "from-common-block" }));
        if s_hi > 0 && !on_main(&loc[0]) {
            st.label("GetHeaders:answered:locator-of-a-fork");
        }
        if cut.is_some() {
            st.label("GetHeaders:answered:cut-at-stop");
        }
        Ok(())
    }

    fn step_send_headers(&mut self, k: usize, kind: HKind, st: &mut Stats) -> Verdict {
        let w = self.w;
        let mut valid = true;
        let mut name = format!("{kind:?}").split('(').next().unwrap_or("").to_string();
        let hs: Vec<HeaderView> = match kind {
            HKind::FromKnown(c, sel) | HKind::FromGenesis(c, sel) => {
                let ch = w.chain_x(c);
                let a = if matches!(kind, HKind::FromGenesis(..)) { 0 } else { self.known_upto(&ch) };
                let upto = pick_idx(sel as u32, ch.len()).max(a + 1).min(ch.len() - 1);
                if a + 1 <= upto { ch[a + 1..=upto].iter().map(|h| self.header(h)).collect() } else { vec![] }
            }
            HKind::Gap(c, g) => {
                let ch = w.chain_x(c);
                let a = self.known_upto(&ch) + 1 + g as usize;
                if a + 1 >= ch.len() {
                    st.label("SendHeaders:skipped(no room)");
                    return Ok(());
                }
                valid = false;
                if self.early_header.is_none() {
                    self.early_header = Some(ch[a + 1].clone());
                }
                ch[a + 1..].iter().map(|h| self.header(h)).collect()
            }
            HKind::Empty => vec![],
            HKind::NonContinuous(c, swap) => {
                let ch = w.chain_x(c);
                let a = self.known_upto(&ch);
                let mut v: Vec<HeaderView> = ch[a + 1..].iter().map(|h| self.header(h)).collect();
                if v.len() < 2 {
                    st.label("SendHeaders:skipped(no room)");
                    return Ok(());
                }
                valid = false;
                if swap || v.len() < 3 {
                    let n = v.len();
                    v.swap(n - 2, n - 1);
                } else {
                    v.remove(1);
                }
                v
            }
            HKind::TooMany => {
                valid = false;
                let a = self.known_upto(&w.chains[0]);
                let mut p = self.header(&w.chains[0][a]);
                let mut v = Vec::with_capacity(MAX_HEADERS_LEN + 1);
                for i in 0..=MAX_HEADERS_LEN {
                    p = fabricate_child(&p, 7_000_000 + i as u64);
                    v.push(p.clone());
                }
                v
            }
            HKind::BadField(c, f) => {
                let ch = w.chain_x(c);
                let a = self.known_upto(&ch);
                if a + 1 >= ch.len() {
                    st.label("SendHeaders:skipped(no room)");
                    return Ok(());
                }
                let h = self.header(&ch[a + 1]);
                let parent = self.header(&ch[a]);
                name = format!("BadField:{f:?}");
                valid = false;
                let b = h.as_advanced_builder();
                let e = h.epoch();
                vec![match f {
                    Field::Version => b.version(1u32).build(),
                    Field::Number => b.number(h.number() + 1).build(),
                    Field::EpochMalformed => {
                        // (the view builder refuses malformed epochs: packed level)
                        let bad = EpochNumberWithFraction::new_unchecked(e.number(), e.length() + 1, e.length());
                        let raw = h.data().raw().as_builder().epoch(bad.full_value()).build();
                        h.data().as_builder().raw(raw).build().into_view()
                    }
                    Field::EpochNotSuccessor => b.epoch(EpochNumberWithFraction::new(e.number() + 2, 0, e.length())).build(),
                    Field::TimestampOld => b.timestamp(w.tree.median_time(&parent.hash())).build(),
                    Field::TimestampNew => b.timestamp(ckb_systemtime::unix_time_as_millis() + 3_600_000).build(),
                }]
            }
            HKind::ChildOfInvalid => {
                valid = false;
                let xp = w.tree.get(&w.invalid).parent.clone();
                if !self.hk.contains(&xp) && self.early_header.is_none() {
                    self.early_header = Some(w.invalid.clone());
                }
                let c = fabricate_child(&self.header(&w.invalid), 9_000_001);
                self.fabricated.insert(c.hash(), c.clone());
                vec![self.header(&w.invalid), c]
            }
        };
        // the documented-harmless kind: too new is "temporarily invalid", nobody is punished
        let harmless = matches!(kind, HKind::BadField(_, Field::TimestampNew));
        if !valid && !harmless {
            self.peers[k].dirty = true;
        }
        st.label(&format!("SendHeaders:{name}"));
        trace!("SendHeaders {kind:?}: {:?}", hs.iter().take(12).map(|h| self.short(&h.hash())).collect::<Vec<_>>());
        self.deliver(k, &format!("SendHeaders:{name}"), msg_send_headers(&hs))?;
        let rep = self.drain(st)?;
        self.no_replies(&rep, "SendHeaders")?;
        if valid {
            for h in &hs {
                let hh = h.hash();
                let s = self.node.status(&hh);
                let is_x = hh == w.invalid;
                if s == BlockStatus::UNKNOWN || (s == BlockStatus::BLOCK_INVALID && !(is_x && self.x_delivered)) {
                    vfail!(
                        "headers:valid-header-not-accepted",
                        "{} was sent in a continuous SendHeaders whose first parent is known; its status is {s:?}",
                        self.short(&hh)
                    );
                }
                self.hk.insert(hh);
            }
            if !hs.is_empty() {
                st.label("SendHeaders:valid-accepted");
            }
        } else {
            // a rejected message may still have taught the node its leading genuine headers
            for h in &hs {
                let hh = h.hash();
                if w.tree.blocks.contains_key(&hh) && self.node.status(&hh).contains(BlockStatus::HEADER_VALID) {
                    self.hk.insert(hh);
                }
            }
        }
        if matches!(kind, HKind::TooMany) {
            for h in [hs.first().unwrap(), hs.last().unwrap()] {
                let s = self.node.status(&h.hash());
                if s.contains(BlockStatus::HEADER_VALID) {
                    vfail!("headers:oversized-message-taken", "a SendHeaders with {} headers (MAX_HEADERS_LEN {MAX_HEADERS_LEN}) was processed: header #{} has status {s:?}", hs.len(), h.number());
                }
            }
        }
        self.check_tip(st, "after SendHeaders")
    }

    fn resolve(&self, s: &HashSel, i: usize) -> H {
        let w = self.w;
        match s {
            HashSel::Chain(c, sel) => {
                let ch = w.chain(*c);
                ch[1 + pick_idx(*sel as u32, ch.len() - 1)].clone()
            }
            HashSel::Side => w.side.clone(),
            HashSel::Invalid => w.invalid.clone(),
            HashSel::Unknown(n) => unknown_hash(w.salt, 5000 + *n as u64 + 1000 * i as u64),
            HashSel::Genesis => w.tree.genesis.clone(),
        }
    }

    fn step_get_blocks(&mut self, k: usize, kind: &GBKind, st: &mut Stats) -> Verdict {
        let w = self.w;
        let g = w.tree.genesis.clone();
        let mut list: Vec<H> = match kind {
            GBKind::List(v) | GBKind::WithDup(v) => v.iter().enumerate().map(|(i, s)| self.resolve(s, i)).collect(),
            GBKind::TooMany => (0..=MAX_HEADERS_LEN as u64).map(|i| unknown_hash(w.salt, 100_000 + i)).collect(),
            GBKind::Many => {
                let mut v: Vec<H> = w.tree.path(&self.node.tip()).iter().rev().filter(|b| b.number > 0).map(|b| b.hash.clone()).collect();
                let mut i = 0;
                while v.len() < 40 {
                    v.push(unknown_hash(w.salt, 200_000 + i));
                    i += 1;
                }
                v
            }
        };
        if let GBKind::WithDup(_) = kind {
            let f = list[0].clone();
            list.push(f);
        }
        // what the handler documents: more than MAX_HEADERS_LEN hashes, the genesis hash and a
        // repeated hash are punished; only the first INIT_BLOCKS_IN_TRANSIT_PER_PEER are looked at
        let mut must: Vec<H> = vec![];
        let mut may: Vec<H> = vec![];
        let mut clean = true;
        if list.len() > MAX_HEADERS_LEN {
            clean = false;
        } else {
            let mut seen = HashSet::new();
            for h in list.iter().take(INIT_BLOCKS_IN_TRANSIT_PER_PEER) {
                if *h == g || !seen.insert(h.clone()) {
                    clean = false;
                    break;
                }
                if self.ever_main.contains(h) {
                    must.push(h.clone());
                } else if self.x_delivered && *h != w.invalid && self.have.contains(h) && w.tree.is_ancestor(h, &w.invalid) {
                    may.push(h.clone());
                }
            }
        }
        // a genesis / duplicate further back than the window is not looked at
        if !clean {
            self.peers[k].dirty = true;
        }
        let name = format!("{kind:?}").split('(').next().unwrap_or("").to_string();
        st.label(&format!("GetBlocks:{name}"));
        trace!("GetBlocks {:?}", list.iter().take(12).map(|h| self.short(h)).collect::<Vec<_>>());
        let peer = self.peers[k].idx;
        self.deliver(k, "GetBlocks", msg_get_blocks(list.clone()))?;
        let rep = self.drain(st)?;
        if let Some((p, hs)) = rep.headers.first() {
            vfail!("reply:unexpected-SendHeaders:after-GetBlocks", "SendHeaders with {} headers to {p}", hs.len());
        }
        let mut answered: Vec<H> = vec![];
        for (p, b) in &rep.blocks {
            let h = b.header().into_view().hash();
            if *p != peer {
                vfail!("getblocks:reply-to-another-peer", "SendBlock {h} went to {p}, {peer} asked");
            }
            if !list.contains(&h) {
                vfail!("getblocks:block-that-was-not-requested", "SendBlock {h} ({})", self.short(&h));
            }
            if !must.contains(&h) && !may.contains(&h) {
                vfail!(
                    "getblocks:answered-for-a-block-that-was-never-verified",
                    "SendBlock for {} (status {:?}): it never was part of the main chain",
                    self.short(&h),
                    self.node.status(&h)
                );
            }
            if answered.contains(&h) {
                vfail!("getblocks:block-sent-twice", "{}", self.short(&h));
            }
            if b.as_slice() != w.tree.get(&h).block.data().as_slice() {
                vfail!("getblocks:block-bytes-differ", "SendBlock for {} carries {} bytes that are not the block's", self.short(&h), b.as_slice().len());
            }
            answered.push(h);
        }
        for h in &must {
            if !answered.contains(h) {
                vfail!("getblocks:verified-block-not-sent", "{} (status {:?}) was requested with {} hashes and not sent; sent: {:?}", self.short(h), self.node.status(h), list.len(), answered.iter().map(|x| self.short(x)).collect::<Vec<_>>());
            }
        }
        st.label(&format!("GetBlocks:answered:{}", answered.len().min(4)));
        if must.len() < list.len().min(INIT_BLOCKS_IN_TRANSIT_PER_PEER) && !answered.is_empty() {
            st.label("GetBlocks:answered-partially(unknown/unverified left out)");
        }
        Ok(())
    }

    fn step_tick(&mut self, t: u8, st: &mut Stats) -> Verdict {
        let token = (t % 4) as u64;
        st.label(&format!("Tick:{token}"));
        self.call(&format!("notify:{token}"), |sy, nc, rt| rt.block_on(sy.notify(nc, token)))?;
        let rep = self.drain(st)?;
        self.no_replies(&rep, "notify")
    }

    fn step_answer(&mut self, k: usize, how: Answer, st: &mut Stats) -> Verdict {
        let w = self.w;
        let mut todo: Vec<H> = self.peers[k].reqs.iter().filter(|h| w.tree.blocks.contains_key(h)).cloned().collect();
        if todo.is_empty() {
            st.label("Answer:nothing-asked");
            return Ok(());
        }
        st.label(&format!("Answer:{how:?}"));
        match how {
            Answer::InOrder => {}
            Answer::Reversed => todo.reverse(),
            Answer::FirstHalf => todo.truncate(todo.len().div_ceil(2)),
            Answer::TamperFirst => {
                let b = w.block(&todo[0]);
                let t = b.as_advanced_builder().proposal(packed::ProposalShortId::new([7u8; 10])).build();
                self.deliver(k, "SendBlock:tampered-body", msg_send_block(&t))?;
                self.node.barrier(&self.anchor)?;
                let rep = self.drain(st)?;
                self.no_replies(&rep, "SendBlock")?;
                self.check_tip(st, "after a tampered SendBlock")?;
                todo.remove(0);
            }
        }
        for h in todo {
            if !self.peers[k].connected || self.peers[k].banned {
                break;
            }
            self.send_block(k, &h, st)?;
        }
        Ok(())
    }

    fn step_send_block(&mut self, k: usize, kind: SBKind, st: &mut Stats) -> Verdict {
        let w = self.w;
        st.label(&format!("SendBlock:{}", format!("{kind:?}").split('(').next().unwrap_or("")));
        match kind {
            SBKind::Unsolicited(c, sel) => {
                let ch = w.chain(c);
                let h = ch[1 + pick_idx(sel as u32, ch.len() - 1)].clone();
                self.send_block(k, &h, st)
            }
            SBKind::Stored(sel) => {
                let main = w.tree.path(&self.node.tip());
                let h = main[1 + pick_idx(sel as u32, main.len() - 1)].hash.clone();
                self.send_block(k, &h, st)
            }
            SBKind::Invalid => {
                let h = w.invalid.clone();
                self.send_block(k, &h, st)
            }
            SBKind::ExtraField(sel) | SBKind::BadExtension(sel) => {
                let ch = &w.chains[0];
                let b = w.block(&ch[1 + pick_idx(sel as u32, ch.len() - 1)]);
                let raw = if matches!(kind, SBKind::ExtraField(_)) {
                    table_push_field(b.data().as_slice(), &[3, 0, 0, 0, 1, 2, 3])
                } else {
                    let four = packed::Block::new_builder()
                        .header(b.data().header())
                        .uncles(b.data().uncles())
                        .transactions(b.data().transactions())
                        .proposals(b.data().proposals())
                        .build();
                    table_push_field(four.as_slice(), &[0xff, 0xff, 0xff, 0xff, 1])
                };
                self.peers[k].dirty = true;
                self.deliver(k, "SendBlock:malformed-extra-field", send_block_raw(&raw))?;
                self.node.barrier(&self.anchor)?;
                let rep = self.drain(st)?;
                self.no_replies(&rep, "SendBlock")?;
                self.check_tip(st, "after a malformed SendBlock")
            }
        }
    }

    fn sample_message(&self, kind: u8) -> NBytes {
        let w = self.w;
        let main = &w.chains[0];
        match kind % 5 {
            0 => msg_get_headers(locator_of(main, main.len() - 1), Byte32::zero()),
            1 => msg_send_headers(&main[1..].iter().map(|h| self.header(h)).collect::<Vec<_>>()),
            2 => msg_get_blocks(main[1..].to_vec()),
            3 => msg_send_block(&w.block(&main[main.len() - 1])),
            _ => msg_in_ibd(),
        }
    }

    fn step_raw(&mut self, k: usize, kind: RawKind, st: &mut Stats) -> Verdict {
        let data: NBytes = match kind {
            RawKind::Random(n, s) => {
                let mut v = vec![0u8; n as usize];
                let mut x = fxhash64(&(self.w.salt, s, n));
                for b in v.iter_mut() {
                    x = x.wrapping_mul(6364136223846793005).wrapping_add(1442695040888963407);
                    *b = (x >> 33) as u8;
                }
                NBytes::from(v)
            }
            RawKind::Empty => NBytes::new(),
            RawKind::Truncated(m, n) => {
                let d = self.sample_message(m);
                d.slice(..n as usize % d.len())
            }
            RawKind::BitFlip(m, n) => {
                let mut v = self.sample_message(m).to_vec();
                let bit = n as usize % (v.len() * 8);
                v[bit / 8] ^= 1 << (bit % 8);
                NBytes::from(v)
            }
            RawKind::RelayUnion => {
                let c = packed::GetRelayTransactions::new_builder().tx_hashes(vec![self.w.chains[0][1].clone()]).build();
                packed::RelayMessage::new_builder().set(c).build().as_bytes()
            }
            RawKind::Trailing(m) => {
                let mut v = self.sample_message(m).to_vec();
                v.extend_from_slice(&[0u8; 4]);
                NBytes::from(v)
            }
        };
        let name = format!("{kind:?}").split('(').next().unwrap_or("").to_string();
        st.label(&format!("Raw:{name}"));
        self.peers[k].dirty = true;
        // a flipped bit may leave a message that makes the node ask for / learn things: headers it
        // may learn this way are unknown to the model, requests for them are not held against it
        self.deliver(k, &format!("Raw:{name}"), data.clone())?;
        self.node.barrier(&self.anchor)?;
        self.node.flush()?;
        if let Ok(m) = packed::SyncMessage::from_slice(&data) {
            if let packed::SyncMessageUnion::SendHeaders(s) = m.to_enum() {
                for h in s.headers().into_iter() {
                    let v = h.into_view();
                    if !self.w.tree.blocks.contains_key(&v.hash()) {
                        self.fabricated.insert(v.hash(), v);
                    } else if self.node.status(&v.hash()).contains(BlockStatus::HEADER_VALID) {
                        self.hk.insert(v.hash());
                    }
                }
            }
        }
        // replies to a still well-formed request are possible; they are checked for size and shape only
        let _ = self.drain(st)?;
        self.check_tip(st, "after raw bytes")
    }
}

impl<'a> Run<'a> {
    fn execute(&mut self, case: &Case, st: &mut Stats) -> Verdict {
        let n = case.peers.clamp(2, 3) as usize;
        for k in 0..n {
            self.connect(k)?;
        }
        self.check_tip(st, "before the session")?;
        for step in &case.steps {
            trace!("--- {step:?}");
            match step {
                Step::GetHeaders(p, l, s) => {
                    let k = self.slot(*p, n, st)?;
                    self.step_get_headers(k, *l, *s, st)?
                }
                Step::SendHeaders(p, kind) => {
                    let k = self.slot(*p, n, st)?;
                    self.step_send_headers(k, *kind, st)?
                }
                Step::GetBlocks(p, kind) => {
                    let k = self.slot(*p, n, st)?;
                    self.step_get_blocks(k, kind, st)?
                }
                Step::Tick(t) => self.step_tick(*t, st)?,
                Step::Answer(p, how) => {
                    let k = *p as usize % n;
                    if self.peers[k].connected && !self.peers[k].banned {
                        self.step_answer(k, *how, st)?
                    }
                }
                Step::SendBlock(p, kind) => {
                    let k = self.slot(*p, n, st)?;
                    self.step_send_block(k, *kind, st)?
                }
                Step::InIBD(p) => {
                    let k = self.slot(*p, n, st)?;
                    st.label("InIBD");
                    self.deliver(k, "InIBD", msg_in_ibd())?;
                    let rep = self.drain(st)?;
                    self.no_replies(&rep, "InIBD")?;
                }
                Step::Raw(p, kind) => {
                    let k = self.slot(*p, n, st)?;
                    self.step_raw(k, *kind, st)?
                }
                Step::Disconnect(p) => {
                    let k = *p as usize % n;
                    st.label("Disconnect");
                    self.disconnect(k)?;
                }
            }
        }
        self.finale(n, st)
    }

    /// whatever came before: a fresh honest peer brings the node to the main tip
    fn finale(&mut self, n: usize, st: &mut Stats) -> Verdict {
        let w = self.w;
        let rejected = self.rejected;
        let tip_before = self.node.tip();
        for k in 0..n {
            self.disconnect(k)?;
        }
        let f = n;
        self.connect(f)?;
        let main = &w.chains[0];
        let want = main.last().unwrap().clone();
        let hs: Vec<HeaderView> = main[1..].iter().map(|h| self.header(h)).collect();
        self.deliver(f, "SendHeaders:finale", msg_send_headers(&hs))?;
        let rep = self.drain(st)?;
        self.no_replies(&rep, "SendHeaders")?;
        for h in &hs {
            let s = self.node.status(&h.hash());
            if s == BlockStatus::UNKNOWN || s == BlockStatus::BLOCK_INVALID {
                vfail!("final:valid-header-not-accepted", "main header {} sent by a fresh honest peer from height 1 on has status {s:?}", self.short(&h.hash()));
            }
            self.hk.insert(h.hash());
        }
        let mut rounds = 0;
        while self.node.tip() != want && rounds < main.len() + 4 {
            rounds += 1;
            self.step_tick(2, st)?;
            if self.peers[f].banned || !self.peers[f].connected {
                break;
            }
            if self.peers[f].reqs.is_empty() {
                break;
            }
            self.step_answer(f, Answer::InOrder, st)?;
        }
        let tip = self.node.tip();
        if tip != want {
            vfail!(
                "final:honest-sync-did-not-reach-the-main-tip",
                "a fresh honest peer sent the {} main headers and answered every GetBlocks ({rounds} rounds); tip {} (#{}), main tip #{} has status {:?}; open requests {:?}",
                hs.len(),
                self.short(&tip),
                w.tree.get(&tip).number,
                main.len() - 1,
                self.node.status(&want),
                self.peers[f].reqs.iter().map(|h| self.short(h)).collect::<Vec<_>>()
            );
        }
        for h in &main[1..] {
            if self.node.status(h) != BlockStatus::BLOCK_VALID {
                vfail!("final:main-block-not-valid", "{} has status {:?} although the main tip is the tip", self.short(h), self.node.status(h));
            }
            let stored = self.node.shared.store().get_block(h);
            if stored.map(|b| b.data().as_slice().to_vec()) != Some(w.tree.get(h).block.data().as_slice().to_vec()) {
                vfail!("final:stored-main-block-differs", "{}: store.get_block does not give the model block's bytes", self.short(h));
            }
        }
        // the complete answers of the synced node
        self.step_get_headers(f, Loc::UnknownThenGenesis(0), Stop::Zero, st)?;
        self.step_get_blocks(f, &GBKind::Many, st)?;
        st.label(&format!("session:rejections:{}", rejected.min(5)));
        if tip_before != want {
            st.label("session:finale-had-to-sync");
        }
        Ok(())
    }
}

pub fn prop(case: &Case, st: &mut Stats) -> Verdict {
    let env = env();
    let w = match World::build(case) {
        Ok(w) => w,
        Err(_) => {
            st.label("case:unbuildable");
            return Ok(());
        }
    };
    install_panic_recorder();
    clear_panics();
    let max_ts = w.tree.order.iter().map(|h| w.tree.get(h).block.timestamp()).max().unwrap_or(0);
    let clock = ckb_systemtime::faketime();
    clock.set_faketime(max_ts + 10_000);
    let node = YNode::start(env).map_err(|e| Violation::new("harness:node-start", e))?;
    let anchor = w.block(&w.chains[0][1]);
    let mut run = Run {
        w: &w,
        node,
        anchor,
        peers: vec![],
        next_idx: 1,
        log_pos: 0,
        have: HashSet::new(),
        ever_main: HashSet::new(),
        hk: HashSet::new(),
        fabricated: HashMap::new(),
        x_delivered: false,
        rejected: 0,
        advanced_after_reject: false,
        early_header: None,
        last_tip: None,
    };
    let r = (|| -> Verdict {
        run.have.insert(w.tree.genesis.clone());
        run.hk.insert(w.tree.genesis.clone());
        for i in 1..=w.pre {
            let b = w.block(&w.chains[0][i]);
            if let Err(e) = run.node.process(&b) {
                vfail!("import:model-block-refused", "main block #{i} refused: {e}");
            }
            run.have.insert(b.hash());
            run.hk.insert(b.hash());
        }
        let s = w.block(&w.side);
        if let Err(e) = run.node.process(&s) {
            vfail!("import:model-side-block-refused", "side block refused: {e}");
        }
        run.have.insert(s.hash());
        run.hk.insert(s.hash());
        run.node.barrier(&run.anchor)?;
        if run.node.shared.is_initial_block_download() {
            return Err(Violation::new("harness:ibd-not-finished", "clock setting left the node in IBD"));
        }
        // a panic of the check's own code must not leave the node's threads behind
        match std::panic::catch_unwind(std::panic::AssertUnwindSafe(|| run.execute(case, st))) {
            Ok(r) => r,
            Err(_) => Err(Violation::new("harness:check-code-panicked", "the check's own code panicked outside a handler call (see worker log)")),
        }
    })();
    let r = r.and_then(|_| node_panic_violation());
    let (rej, adv, npeers) = (run.rejected, run.advanced_after_reject, case.peers.clamp(2, 3));
    run.node.stop();
    // A genuine header that reached the node before its parent did: the follow-up symptoms (the
    // header is refused later, the honest peer sending it is banned, the sync cannot pass it) are
    // attributed to that message; every other violation keeps its own signature.
    let r = match r {
        Err(mut v)
            if run.early_header.is_some()
                && (v.signature.starts_with("headers:valid-header-not-accepted")
                    || v.signature.starts_with("final:valid-header-not-accepted")
                    || v.signature.starts_with("final:honest-sync-did-not-reach-the-main-tip")
                    || (v.signature.starts_with("ban:peer-that-sent-only-valid-data:SendHeaders") && v.signature.ends_with(":HeadersIsInvalid"))) =>
        {
            v.detail = format!("[{}] {}", v.signature, v.detail);
            v.signature = "sync:after-genuine-header-sent-before-its-parent:header-is-refused-later".into();
            Err(v)
        }
        r => r,
    };
    if r.is_ok() {
        st.label(&format!("session:peers:{npeers}"));
        if rej > 0 && adv {
            st.label("session:nontrivial(rejection, then valid data moved the chain)");
            st.nontrivial(&serde_json::to_string(case).unwrap_or_default());
            if st.want_sample() {
                st.sample(|| json!({"main_len": case.main_len, "preload": case.preload, "forks": case.forks, "steps": case.steps.len(), "rejections": rej, "first_steps": case.steps.iter().take(6).collect::<Vec<_>>()}));
            }
        }
    }
    r
}

pub fn run(ctx: &Ctx, cases: u32) {
    if cases == 0 {
        return;
    }
    let prev = ctx.shrink_iters.get();
    ctx.shrink_iters.set(120);
    ctx.run_prop("sync-session", cases, case_strategy(), prop);
    ctx.shrink_iters.set(prev);
}

pub fn replay(v: &Value, st: &mut Stats) -> Verdict {
    let c: Case = from_case(v)?;
    prop(&c, st)
}

#[allow(dead_code)]
fn _unused(_: BTreeMap<u8, u8>) {}
