//! C14 helper: the model side of a paired history.  Builds the chain spec variants, a
//! witness-checking lock script (compiled with clang at check time), transactions with since /
//! cellbase-maturity / witness variants, blocks on arbitrary stored parents, and predicts — from the
//! RFC rules re-implemented here, never from the node's verifiers — whether a block is contextually
//! valid at its position and which blocks the node stores / deletes.
use crate::common::pick_idx;
use crate::model::*;
use crate::node::{Env, SpecCfg, env_of, harness_dir};
use crate::plan::lock_variant;
use ckb_chain_spec::{ChainSpec, HardForkConfig, IssuedCell};
use ckb_jsonrpc_types::JsonBytes;
use ckb_resource::Resource;
use ckb_types::{
    H256,
    bytes::Bytes,
    core::{
        Capacity, DepType, EpochNumberWithFraction, ScriptHashType, TransactionBuilder, TransactionView,
        UncleBlockView,
    },
    packed::{CellDep, CellInput, CellOutput, OutPoint, Script},
    prelude::*,
};
use serde::{Deserialize, Serialize};
use std::collections::{BTreeMap, BTreeSet};
use std::sync::Arc;

// ------------------------------------------------------------------------------------------------
// chain spec variants

#[derive(Clone, Debug)]
pub struct Variant {
    pub cfg: SpecCfg,
    /// epoch at which ckb2023 (VM version 2 for `hash_type = type`) activates; 0 = from genesis
    pub fork_epoch: u64,
    /// consensus parameter starting_block_limiting_dao_withdrawing_lock (None = default, 10 000 000)
    pub dao_limit_start: Option<u64>,
}

pub fn epoch_full(n: u64, i: u64, l: u64) -> u64 {
    EpochNumberWithFraction::new(n, i, l).full_value()
}

pub fn variant(v: u8) -> Variant {
    let mut c = SpecCfg::default();
    let mut fork_epoch = 0;
    let mut dao_limit_start = None;
    match v % 4 {
        0 => {
            c.permanent_difficulty = true;
            c.epoch_duration_target = 40; // 5 blocks / epoch
            c.proposal_window = (2, 4);
            c.cellbase_maturity = epoch_full(0, 3, 5);
            dao_limit_start = Some(9);
        }
        1 => {
            c.permanent_difficulty = false;
            c.genesis_epoch_length = 6;
            c.proposal_window = (2, 10);
            c.cellbase_maturity = 0;
        }
        2 => {
            c.permanent_difficulty = true;
            c.epoch_duration_target = 32; // 4 blocks / epoch
            c.proposal_window = (1, 2);
            c.cellbase_maturity = epoch_full(1, 0, 1);
            dao_limit_start = Some(6);
        }
        _ => {
            c.permanent_difficulty = true;
            c.epoch_duration_target = 40;
            c.proposal_window = (2, 4);
            c.cellbase_maturity = epoch_full(0, 2, 5);
            fork_epoch = 2;
        }
    }
    Variant {
        cfg: c,
        fork_epoch,
        dao_limit_start,
    }
}

fn h256(s: &str) -> H256 {
    let mut b = [0u8; 32];
    for i in 0..32 {
        b[i] = u8::from_str_radix(&s[2 * i..2 * i + 2], 16).unwrap();
    }
    H256(b)
}

/// same as node::build_env plus the hard-fork parameter
pub fn build_env_c14(v: &Variant) -> Env {
    let cfg = &v.cfg;
    let path = harness_dir().join("specs").join("verif.toml");
    let mut spec = ChainSpec::load_from(&Resource::file_system(path)).expect("load spec");
    let as_lock = ckb_jsonrpc_types::Script {
        code_hash: h256(crate::node::ALWAYS_SUCCESS_HASH),
        hash_type: ckb_jsonrpc_types::ScriptHashType::Data,
        args: JsonBytes::default(),
    };
    spec.genesis.issued_cells = (0..cfg.faucet_cells)
        .map(|i| IssuedCell {
            capacity: Capacity::shannons(cfg.faucet_capacity + i as u64),
            data: None,
            type_: None,
            lock: as_lock.clone().into(),
        })
        .collect();
    spec.params.permanent_difficulty_in_dummy = Some(cfg.permanent_difficulty);
    spec.params.genesis_epoch_length = Some(cfg.genesis_epoch_length);
    spec.params.epoch_duration_target = Some(cfg.epoch_duration_target);
    spec.params.primary_epoch_reward_halving_interval = Some(cfg.halving_interval);
    spec.params.cellbase_maturity = Some(cfg.cellbase_maturity);
    spec.params.starting_block_limiting_dao_withdrawing_lock = v.dao_limit_start;
    if v.fork_epoch > 0 {
        spec.params.hardfork = Some(HardForkConfig {
            ckb2023: Some(v.fork_epoch),
        });
    }
    let mut consensus = spec.build_consensus().expect("build consensus");
    consensus.tx_proposal_window =
        ckb_chain_spec::consensus::ProposalWindow(cfg.proposal_window.0, cfg.proposal_window.1);
    env_of(Arc::new(consensus))
}

// ------------------------------------------------------------------------------------------------
// the witness-checking lock

/// Semantics (this text is the specification the model uses):
///   w = witness 0 of the transaction (absent -> fail 10; empty -> fail 11)
///   w[0] == 1 -> success;  w[0] == 2 -> success iff VM version == 1;
///   w[0] == 3 -> success iff VM version == 2;  anything else -> fail 12
///   before returning it spins (w[1] * 8 + vm_version * 4) loop iterations (cycles depend on the
///   witness and on the VM version)
const WC_SRC: &str = r#"
static inline long sc(long n, long a0, long a1, long a2, long a3, long a4) {
  register long r0 asm("a0") = a0; register long r1 asm("a1") = a1; register long r2 asm("a2") = a2;
  register long r3 asm("a3") = a3; register long r4 asm("a4") = a4; register long r7 asm("a7") = n;
  asm volatile("ecall" : "+r"(r0) : "r"(r1), "r"(r2), "r"(r3), "r"(r4), "r"(r7) : "memory");
  return r0;
}
int main(void) {
  unsigned char buf[16];
  unsigned long len = 16;
  long r = sc(2074, (long)buf, (long)&len, 0, 0, 1);
  if (r != 0) return 10;
  if (len < 1) return 11;
  long ver = sc(2041, 0, 0, 0, 0, 0);
  volatile unsigned long x = 0;
  unsigned long n = ver * 4;
  if (len >= 2) n += (unsigned long)buf[1] * 8;
  for (unsigned long i = 0; i < n; i++) x += i;
  if (buf[0] == 1) return 0;
  if (buf[0] == 2) return ver == 1 ? 0 : 13;
  if (buf[0] == 3) return ver == 2 ? 0 : 14;
  return 12;
}
__attribute__((naked)) void _start(void) {
  asm volatile("addi sp, sp, -64\n li a0, 0\n li a1, 0\n li a2, 0\n jal main\n li a7, 93\n ecall");
}
"#;

pub fn wc_binary() -> Result<Bytes, String> {
    crate::c05gen::compile(WC_SRC, 1, false)
}

pub const WITNESS_VARIANTS: u8 = 7;

pub fn witness_variant(v: u8) -> Vec<Vec<u8>> {
    match v % WITNESS_VARIANTS {
        0 => vec![],
        1 => vec![vec![1]],
        2 => vec![vec![1, 3]],
        3 => vec![vec![0]],
        4 => vec![vec![2]],
        5 => vec![vec![3, 1]],
        _ => vec![vec![1, 7], vec![0xee, 0xee]],
    }
}

/// script outcome by the specification above
pub fn wc_outcome(witnesses: &[Vec<u8>], vm_version: u8) -> Result<(), &'static str> {
    let w = witnesses.first().ok_or("script:no-witness")?;
    let b0 = *w.first().ok_or("script:empty-witness")?;
    match b0 {
        1 => Ok(()),
        2 if vm_version == 1 => Ok(()),
        3 if vm_version == 2 => Ok(()),
        2 | 3 => Err("script:vm-version"),
        _ => Err("script:bad-witness"),
    }
}

pub fn with_witnesses(tx: &TransactionView, v: u8) -> TransactionView {
    let ws: Vec<ckb_types::packed::Bytes> = witness_variant(v).into_iter().map(|w| Bytes::from(w).pack()).collect();
    tx.as_advanced_builder().set_witnesses(ws).build()
}

pub fn witnesses_of(tx: &TransactionView) -> Vec<Vec<u8>> {
    tx.witnesses().into_iter().map(|w| w.raw_data().to_vec()).collect()
}

// ------------------------------------------------------------------------------------------------
// since (RFC 0017) and cellbase maturity, evaluated at a commit position

pub const SINCE_REL: u64 = 1 << 63;
pub const SINCE_EPOCH: u64 = 1 << 61;
pub const SINCE_TS: u64 = 2 << 61;
const SINCE_VALUE_MASK: u64 = 0x00ff_ffff_ffff_ffff;

fn epoch_parts(full: u64) -> (u128, u128, u128) {
    let n = (full & 0xff_ffff) as u128;
    let i = ((full >> 24) & 0xffff) as u128;
    let l = ((full >> 40) & 0xffff) as u128;
    if l == 0 { (n, 0, 1) } else { (n, i, l) }
}

/// a + b >= ... helpers on fractions (num, den)
fn frac(full: u64) -> (u128, u128) {
    let (n, i, l) = epoch_parts(full);
    (n * l + i, l)
}
fn frac_add(a: (u128, u128), b: (u128, u128)) -> (u128, u128) {
    (a.0 * b.1 + b.0 * a.1, a.1 * b.1)
}
fn frac_ge(a: (u128, u128), b: (u128, u128)) -> bool {
    a.0 * b.1 >= b.0 * a.1
}

pub struct CommitPos<'a> {
    pub tree: &'a Tree,
    pub parent: &'a H,
    pub number: u64,
    /// epoch field of the committing block
    pub epoch_full: u64,
}

/// None = satisfied
pub fn since_verdict(pos: &CommitPos, since: u64, cell: &LiveCell) -> Option<&'static str> {
    if since == 0 {
        return None;
    }
    let v = since & SINCE_VALUE_MASK;
    let rel = since & SINCE_REL != 0;
    let metric = (since >> 61) & 3;
    let ok = match (metric, rel) {
        (0, false) => pos.number >= v,
        (0, true) => pos.number >= cell.block_number + v,
        (1, false) => frac_ge(frac(pos.epoch_full), frac(v)),
        (1, true) => frac_ge(frac(pos.epoch_full), frac_add(frac(cell.block_epoch), frac(v))),
        (2, false) => pos.tree.median_time(pos.parent) >= v * 1000,
        (2, true) => {
            let base = pos.tree.get(&cell.block_hash).block.timestamp();
            pos.tree.median_time(pos.parent) >= base + v * 1000
        }
        _ => false,
    };
    if ok { None } else { Some("immature-since") }
}

pub fn maturity_verdict(pos: &CommitPos, maturity_full: u64, cell: &LiveCell) -> Option<&'static str> {
    if cell.cellbase && cell.block_number > 0 {
        let need = frac_add(frac(cell.block_epoch), frac(maturity_full));
        if !frac_ge(frac(pos.epoch_full), need) {
            return Some("immature-cellbase");
        }
    }
    None
}

// ------------------------------------------------------------------------------------------------
// plain-data operations (generated by proptest, see checks/c14.rs)

#[derive(Clone, Debug, Serialize, Deserialize, Hash)]
pub struct TxOp {
    pub inputs: Vec<u16>,
    pub outputs: u8,
    pub fee: u8,
    pub data_len: u8,
    /// 0..=3 always_success with args variants, 4.. the witness-checking lock
    pub out_lock: u8,
    /// 0 none, 1 abs number, 2 rel number, 3 abs epoch, 4 rel epoch, 5 abs time, 6 rel time
    pub since: u8,
    /// offset (in blocks / fifths of an epoch / seconds) around the value that is just satisfied
    /// at the earliest commit position seen from the current tip
    pub since_delta: i8,
    pub witness: u8,
    pub extra_dep: bool,
    /// may spend cells already spent by another known, uncommitted transaction
    pub conflict: bool,
    pub submit: bool,
}

#[derive(Clone, Debug, Serialize, Deserialize, Hash)]
pub struct BlockOp {
    /// 0 tip, 1 ancestor of the tip (fork), 2 a stored block off the main chain
    pub parent_mode: u8,
    pub parent: u16,
    pub ts: u8,
    pub propose_mask: u16,
    pub commit_mask: u16,
    /// bit i: commit candidate i with another witness variant than the transaction was created with
    pub witness_alt: u16,
    pub witness_sel: u8,
    /// allow one committed transaction that is invalid at this position (since / maturity / script)
    pub allow_bad: bool,
    /// 0 none, 1 DAO field, 2 reward, 3 chain root, 4 transactions root (never stored)
    pub invalid: u8,
    pub uncle: u16,
    pub miner: u8,
    pub ext_extra: u8,
    /// query battery bits asked for this block's hash right before it is delivered
    pub prequery: u16,
    pub pre_snapshot: bool,
    /// battery bits asked right after the delivery
    pub postquery: u16,
}

pub struct KnownTx {
    pub tx: TransactionView,
    pub id: [u8; 10],
    pub wc_input: bool,
    pub since: u64,
    pub created_at: u64,
    /// invalid at every position (rule named here), e.g. a NervosDAO withdrawing cell whose lock
    /// size differs from the deposit's
    pub fixed_bad: Option<&'static str>,
}

#[derive(Clone, Copy, Debug, PartialEq, Eq)]
pub enum BStat {
    /// stored; verified = on the (current or a former) main chain
    Stored { verified: bool },
    /// failed (deleted, or never stored) — the node remembers it as invalid
    Gone,
}

#[derive(Clone, Debug)]
pub struct BlockInfo {
    pub hash: H,
    /// why the block itself is invalid (None = valid by construction)
    pub bad: Option<String>,
    /// position (among the non-cellbase transactions) of the transaction that makes it invalid
    pub bad_tx: Option<usize>,
    /// (index into txs, witness variant differs from the known tx's own)
    pub committed: Vec<(usize, bool)>,
}

pub struct World {
    pub env: Env,
    pub tree: Tree,
    pub fork_epoch: u64,
    pub wc_dep: CellDep,
    pub wc_lock: Script,
    pub code_cell: CellKey,
    pub base_number: u64,
    /// all model blocks in creation order (genesis excluded)
    pub blocks: Vec<H>,
    pub stat: BTreeMap<[u8; 32], BStat>,
    pub tip: H,
    pub txs: Vec<KnownTx>,
    /// every out point that ever existed in the model (creation order)
    pub cells: Vec<OutPoint>,
    pub labels: BTreeMap<String, u64>,
    /// known finding "cached script result reused across a VM version change": do not create
    /// transactions behind the witness-checking lock before the VM version has changed for good
    pub exclude_vm_change: bool,
}

fn nc_invalid(b: &MBlock) -> bool {
    b.invalid.as_deref() == Some("bad-tx-root")
}

impl World {
    fn label(&mut self, l: &str) {
        *self.labels.entry(l.to_string()).or_insert(0) += 1;
    }

    /// genesis + the set-up prefix (deploys the witness-checking lock); returns the prefix blocks
    pub fn new(env: Env, fork_epoch: u64) -> Result<(World, Vec<H>), String> {
        let elf = wc_binary()?;
        let tree = Tree::new(env.consensus.clone());
        let genesis = tree.genesis.clone();
        let (f_op, f_out) = env.faucets[0].clone();
        // the code cell carries a type script so that the lock can be referenced by type hash
        let code_type = env
            .always_success_lock
            .clone()
            .as_builder()
            .args(Bytes::from(vec![0xc1, 0x40]).pack())
            .build();
        let code_out = CellOutput::new_builder()
            .lock(env.always_failure_lock.clone())
            .type_(Some(code_type.clone()).pack())
            .build();
        let code_cap = occupied_shannons(&code_out, elf.len()) as u64;
        let code_out = code_out.as_builder().capacity(Capacity::shannons(code_cap)).build();
        let change = CellOutput::new_builder()
            .lock(env.always_success_lock.clone())
            .capacity(Capacity::shannons(cap(&f_out) - code_cap - 100_000))
            .build();
        let deploy = TransactionBuilder::default()
            .cell_dep(env.always_success_dep.clone())
            .input(CellInput::new(f_op, 0))
            .output(code_out)
            .output_data(elf.pack())
            .output(change)
            .output_data(Bytes::new().pack())
            .build();
        let wc_lock = Script::new_builder()
            .code_hash(code_type.calc_script_hash())
            .hash_type(ScriptHashType::Type)
            .build();
        let wc_dep = CellDep::new_builder()
            .out_point(OutPoint::new(deploy.hash(), 0))
            .dep_type(DepType::Code)
            .build();
        let mut w = World {
            env,
            tree,
            fork_epoch,
            wc_dep,
            wc_lock,
            code_cell: (h32(&deploy.hash()), 0),
            base_number: 0,
            blocks: vec![],
            stat: BTreeMap::new(),
            tip: genesis.clone(),
            txs: vec![],
            cells: vec![],
            labels: BTreeMap::new(),
            exclude_vm_change: false,
        };
        for (op, _) in w.env.faucets.iter() {
            w.cells.push(op.clone());
        }
        w.cells.push(OutPoint::new(deploy.hash(), 0));
        w.cells.push(OutPoint::new(deploy.hash(), 1));
        w.stat.insert(h32(&genesis), BStat::Stored { verified: true });
        let closest = w.tree.window().0;
        let mut prefix = vec![];
        let mut parent = genesis;
        for i in 0..=closest {
            let mut spec = BlockSpec {
                timestamp: w.timestamp(&parent, 1),
                miner_lock: Some(w.env.always_success_lock.clone()),
                ..Default::default()
            };
            if i == 0 {
                spec.proposals = vec![deploy.proposal_short_id()];
            }
            if i == closest {
                spec.txs = vec![deploy.clone()];
            }
            let opts = BuildOpts {
                use_node_reward_quirk: true,
                ..Default::default()
            };
            let mb = w.tree.build(&parent, &spec, &opts)?;
            w.note_cellbase(&mb);
            let h = w.tree.insert(mb);
            w.blocks.push(h.clone());
            prefix.push(h.clone());
            parent = h;
        }
        w.base_number = closest + 1;
        Ok((w, prefix))
    }

    fn note_cellbase(&mut self, mb: &MBlock) {
        let cb = &mb.block.transactions()[0];
        for j in 0..cb.outputs().len() {
            self.cells.push(OutPoint::new(cb.hash(), j as u32));
        }
    }

    // -- timestamps (same guarantees as plan::Interp::timestamp) --------------------------------

    fn prev_tail_ts(&self, parent: &H) -> u64 {
        let p = self.tree.get(parent);
        let tail_prev = if p.epoch.number() == 0 {
            self.tree.get(&self.tree.genesis).block.timestamp()
        } else {
            self.tree
                .get(&p.epoch.last_block_hash_in_previous_epoch())
                .block
                .timestamp()
        };
        if p.number + 1 >= p.epoch.start_number() + p.epoch.length() {
            p.block.timestamp().max(tail_prev)
        } else {
            tail_prev
        }
    }

    pub fn timestamp(&self, parent: &H, kind: u8) -> u64 {
        let pts = self.tree.get(parent).block.timestamp();
        let median = self.tree.median_time(parent);
        let want = match kind {
            0 => pts + 1,
            1 => pts + 1000,
            2 => pts + 8000,
            3 => pts + 48_000,
            4 => pts + 400_000,
            _ => median + 1,
        };
        want.max(median + 1).max(self.prev_tail_ts(parent) + 1)
    }

    // -- model of what the node stores ---------------------------------------------------------

    pub fn present(&self, h: &H) -> bool {
        matches!(self.stat.get(&h32(h)), Some(BStat::Stored { .. }))
    }

    pub fn on_main(&self, h: &H) -> bool {
        self.tree.is_ancestor(h, &self.tip)
    }

    /// Apply the delivery of block `h` (first delivery or re-delivery) to the model; returns
    /// whether the node must report success.
    pub fn deliver(&mut self, h: &H) -> bool {
        let b = self.tree.get(h).clone();
        let k = h32(h);
        match self.stat.get(&k) {
            Some(BStat::Gone) => return false,
            Some(BStat::Stored { .. }) => return true,
            None => {}
        }
        if nc_invalid(&b) {
            self.stat.insert(k, BStat::Gone);
            return false;
        }
        if !self.present(&b.parent) {
            self.stat.insert(k, BStat::Gone);
            return false;
        }
        if b.td > self.tree.get(&self.tip).td {
            let path_ok = self.tree.path(h).iter().all(|x| x.invalid.is_none());
            if !path_ok {
                self.stat.insert(k, BStat::Gone);
                return false;
            }
            let hashes: Vec<H> = self.tree.path(h).iter().map(|x| x.hash.clone()).collect();
            for x in hashes {
                self.stat.insert(h32(&x), BStat::Stored { verified: true });
            }
            self.tip = h.clone();
            true
        } else {
            self.stat.insert(k, BStat::Stored { verified: false });
            true
        }
    }

    // -- transactions ----------------------------------------------------------------------------

    pub fn is_wc(&self, s: &Script) -> bool {
        s.code_hash() == self.wc_lock.code_hash() && s.hash_type() == self.wc_lock.hash_type()
    }

    fn is_as(&self, s: &Script) -> bool {
        s.code_hash() == self.env.always_success_lock.code_hash()
            && s.hash_type() == self.env.always_success_lock.hash_type()
    }

    fn spendable_at(&self, h: &H) -> BTreeMap<CellKey, LiveCell> {
        self.tree
            .get(h)
            .state
            .live
            .iter()
            .filter(|(k, c)| {
                **k != self.code_cell
                    && c.output.type_().to_opt().is_none()
                    && (self.is_as(&c.output.lock()) || self.is_wc(&c.output.lock()))
            })
            .map(|(k, c)| (*k, c.clone()))
            .collect()
    }

    pub fn vm_version_at_epoch(&self, epoch_number: u64) -> u8 {
        if epoch_number >= self.fork_epoch { 2 } else { 1 }
    }

    /// create a transaction on the state of the model tip
    pub fn new_tx(&mut self, op: &TxOp) -> Option<usize> {
        self.new_tx_ex(op, None)
    }

    /// `forced`: spend exactly this cell (must be live at the tip) with this since value
    pub fn new_tx_ex(&mut self, op: &TxOp, forced: Option<(CellKey, u64)>) -> Option<usize> {
        let tip = self.tip.clone();
        let tipb = self.tree.get(&tip).clone();
        let mut avail = self.spendable_at(&tip);
        if !op.conflict {
            for kt in &self.txs {
                if !tipb.state.tx_index.contains_key(&h32(&kt.tx.hash())) {
                    for i in kt.tx.inputs().into_iter() {
                        avail.remove(&cell_key(&i.previous_output()));
                    }
                }
            }
        }
        if self.exclude_vm_change && self.fork_epoch > 0 && tipb.block.epoch().number() < self.fork_epoch + 1 {
            let before = avail.len();
            let wc_keys: Vec<CellKey> = avail.iter().filter(|(_, c)| self.is_wc(&c.output.lock())).map(|(k, _)| *k).collect();
            for k in wc_keys {
                avail.remove(&k);
            }
            if avail.len() != before {
                self.label("excluded-known:witness-checking-lock-spend-before-vm-version-change");
            }
        }
        if avail.is_empty() {
            self.label("tx:no-spendable-cell");
            return None;
        }
        let mut chosen: Vec<(CellKey, LiveCell)> = vec![];
        if let Some((k, _)) = &forced {
            let c = avail.remove(k).or_else(|| tipb.state.live.get(k).cloned())?;
            chosen.push((*k, c));
        }
        for sel in op.inputs.iter().take(if forced.is_some() { 0 } else { 2 }) {
            if avail.is_empty() {
                break;
            }
            // odd selectors prefer cells behind the witness-checking lock (they are scarce)
            let wc: Vec<CellKey> = avail.iter().filter(|(_, c)| self.is_wc(&c.output.lock())).map(|(k, _)| *k).collect();
            let k = if sel & 1 == 1 && !wc.is_empty() {
                wc[pick_idx(*sel as u32, wc.len())]
            } else {
                *avail.keys().nth(pick_idx(*sel as u32, avail.len())).unwrap()
            };
            let c = avail.remove(&k).unwrap();
            chosen.push((k, c));
        }
        let in_cap: u64 = chosen.iter().map(|(_, c)| cap(&c.output)).sum();
        let fee: u64 = match op.fee % 6 {
            0 => 0,
            1 => 700,
            2 => 1000,
            3 => 100_000,
            4 => 12_345_678,
            _ => 100_000_000,
        };
        let lock = if op.out_lock >= 4 {
            self.wc_lock.clone()
        } else {
            lock_variant(&self.env, op.out_lock)
        };
        let data = Bytes::from(vec![op.data_len; op.data_len as usize]);
        let probe = CellOutput::new_builder().lock(lock.clone()).build();
        let min_cap = occupied_shannons(&probe, data.len()) as u64;
        if in_cap < fee + min_cap {
            self.label("tx:cannot-pay");
            return None;
        }
        let mut n = op.outputs.clamp(1, 3) as u64;
        while n > 1 && (in_cap - fee) / n < min_cap {
            n -= 1;
        }
        // since on input 0, around the value that is just satisfied at the earliest commit
        // position (tip + 1 + closest) seen from here
        let closest = self.tree.window().0;
        let c0 = &chosen[0].1;
        let d = op.since_delta as i64;
        let earliest = tipb.number + 1 + closest;
        let tip_epoch = tipb.block.epoch();
        let median_s = self.tree.median_time(&tip) / 1000;
        let add = |base: u64, d: i64| -> u64 { (base as i64 + d).max(0) as u64 };
        let since: u64 = match if forced.is_some() { 7 } else { op.since % 7 } {
            7 => forced.as_ref().unwrap().1,
            0 => 0,
            1 => add(earliest, d),
            2 => SINCE_REL | add(earliest.saturating_sub(c0.block_number), d),
            3 => {
                // whole epochs: the tip's epoch (+1 when delta > 0, +2 when delta > 1)
                SINCE_EPOCH | epoch_full(add(tip_epoch.number(), d.clamp(0, 2)), 0, 1)
            }
            4 => {
                // a fraction of an epoch (fifths) after the cell's block
                let (cn, ci, cl) = epoch_parts(c0.block_epoch);
                let _ = (ci, cl);
                let whole = tip_epoch.number().saturating_sub(cn as u64);
                let fifths = add(2, d).min(4);
                SINCE_REL | SINCE_EPOCH | epoch_full(whole, fifths, 5)
            }
            5 => SINCE_TS | add(median_s, d * 4),
            _ => {
                let base_s = self.tree.get(&c0.block_hash).block.timestamp() / 1000;
                SINCE_REL | SINCE_TS | add(median_s.saturating_sub(base_s), d * 4)
            }
        };
        let wc_input = chosen.iter().any(|(_, c)| self.is_wc(&c.output.lock()));
        let mut tb = TransactionBuilder::default().cell_dep(self.env.always_success_dep.clone());
        if wc_input {
            tb = tb.cell_dep(self.wc_dep.clone());
        }
        if op.extra_dep {
            tb = tb.cell_dep(self.env.dao_dep.clone());
        }
        for (i, (k, _)) in chosen.iter().enumerate() {
            tb = tb.input(CellInput::new(out_point_of(k), if i == 0 { since } else { 0 }));
        }
        let total = in_cap - fee;
        let each = total / n;
        for i in 0..n {
            let c = if i == n - 1 { total - each * (n - 1) } else { each };
            tb = tb
                .output(
                    CellOutput::new_builder()
                        .capacity(Capacity::shannons(c))
                        .lock(lock.clone())
                        .build(),
                )
                .output_data(data.pack());
        }
        // on the hard-fork variant transactions behind the witness-checking lock often carry a
        // witness whose verdict depends on the VM version
        let witness = match (wc_input && self.fork_epoch > 0, op.witness % WITNESS_VARIANTS) {
            (true, 2) => 4,
            (true, 6) => 5,
            (_, v) => v,
        };
        let tx = with_witnesses(&tb.build(), witness);
        let id = pid(&tx.proposal_short_id());
        if self.txs.iter().any(|k| k.id == id) {
            self.label("tx:duplicate");
            return None;
        }
        for j in 0..tx.outputs().len() {
            self.cells.push(OutPoint::new(tx.hash(), j as u32));
        }
        self.txs.push(KnownTx {
            tx,
            id,
            wc_input,
            since,
            created_at: tipb.number,
            fixed_bad: None,
        });
        Some(self.txs.len() - 1)
    }

    fn dao_cell(&self, lock: Script, capacity: u64) -> CellOutput {
        CellOutput::new_builder()
            .capacity(Capacity::shannons(capacity))
            .lock(lock)
            .type_(Some(self.env.dao_type.clone()).pack())
            .build()
    }

    fn free_plain_cell(&self, sel: u16, min_cap: u64) -> Option<(CellKey, LiveCell)> {
        let tipb = self.tree.get(&self.tip);
        let mut avail = self.spendable_at(&self.tip);
        for kt in &self.txs {
            if !tipb.state.tx_index.contains_key(&h32(&kt.tx.hash())) {
                for i in kt.tx.inputs().into_iter() {
                    avail.remove(&cell_key(&i.previous_output()));
                }
            }
        }
        let maturity = self.env.consensus.cellbase_maturity().full_value();
        let c: Vec<(CellKey, LiveCell)> = avail
            .into_iter()
            .filter(|(_, c)| self.is_as(&c.output.lock()) && cap(&c.output) >= min_cap && !(c.cellbase && maturity > 0))
            .collect();
        if c.is_empty() {
            return None;
        }
        Some(c[pick_idx(sel as u32, c.len())].clone())
    }

    /// NervosDAO deposit of 1000 CKB from a plain cell at the tip
    pub fn new_dao_deposit(&mut self, sel: u16, lock_v: u8) -> Option<usize> {
        const DEPOSIT: u64 = 1000 * 100_000_000;
        let (k, c) = self.free_plain_cell(sel, DEPOSIT + 200 * 100_000_000)?;
        let lock = lock_variant(&self.env, lock_v % 4);
        let tx = TransactionBuilder::default()
            .cell_dep(self.env.always_success_dep.clone())
            .cell_dep(self.env.dao_dep.clone())
            .input(CellInput::new(out_point_of(&k), 0))
            .output(self.dao_cell(lock.clone(), DEPOSIT))
            .output_data(Bytes::from(vec![0u8; 8]).pack())
            .output(
                CellOutput::new_builder()
                    .capacity(Capacity::shannons(cap(&c.output) - DEPOSIT - 100_000))
                    .lock(self.env.always_success_lock.clone())
                    .build(),
            )
            .output_data(Bytes::new().pack())
            .build();
        self.push_custom(tx, None)
    }

    /// phase-1 withdrawal of the deposit created by known transaction `dep`; `lock_v` selects the
    /// lock of the withdrawing cell (its size may differ from the deposit's)
    pub fn new_dao_withdraw(&mut self, dep: usize, fee_sel: u16, lock_v: u8) -> Option<usize> {
        let dk = (h32(&self.txs[dep].tx.hash()), 0u32);
        let tipb = self.tree.get(&self.tip).clone();
        let dcell = tipb.state.live.get(&dk)?.clone();
        let (fk, fc) = self.free_plain_cell(fee_sel, 200 * 100_000_000)?;
        let lock = lock_variant(&self.env, lock_v % 4);
        let mismatch = lock.total_size() != dcell.output.lock().total_size();
        let limit = self.env.consensus.starting_block_limiting_dao_withdrawing_lock();
        let fixed_bad = if mismatch && dcell.block_number >= limit { Some("dao-lock-size") } else { None };
        let tx = TransactionBuilder::default()
            .cell_dep(self.env.always_success_dep.clone())
            .cell_dep(self.env.dao_dep.clone())
            .header_dep(dcell.block_hash.clone())
            .input(CellInput::new(out_point_of(&dk), 0))
            .input(CellInput::new(out_point_of(&fk), 0))
            .output(self.dao_cell(lock, cap(&dcell.output)))
            .output_data(Bytes::from(dcell.block_number.to_le_bytes().to_vec()).pack())
            .output(
                CellOutput::new_builder()
                    .capacity(Capacity::shannons(cap(&fc.output) - 100_000))
                    .lock(self.env.always_success_lock.clone())
                    .build(),
            )
            .output_data(Bytes::new().pack())
            .build();
        if mismatch {
            self.label(if fixed_bad.is_some() { "dao:withdraw-lock-size-mismatch-enforced" } else { "dao:withdraw-lock-size-mismatch-exempt" });
        } else {
            self.label("dao:withdraw-lock-size-match");
        }
        self.push_custom(tx, fixed_bad)
    }

    fn push_custom(&mut self, tx: TransactionView, fixed_bad: Option<&'static str>) -> Option<usize> {
        let id = pid(&tx.proposal_short_id());
        if self.txs.iter().any(|k| k.id == id) {
            return None;
        }
        for j in 0..tx.outputs().len() {
            self.cells.push(OutPoint::new(tx.hash(), j as u32));
        }
        let created_at = self.tree.get(&self.tip).number;
        self.txs.push(KnownTx {
            tx,
            id,
            wc_input: false,
            since: 0,
            created_at,
            fixed_bad,
        });
        Some(self.txs.len() - 1)
    }

    /// verdict of one known transaction (with the given witnesses) committed in a block on
    /// `parent`; inputs must be live in the parent state
    pub fn commit_verdict(
        &self,
        kt: &KnownTx,
        witnesses: &[Vec<u8>],
        parent: &H,
        number: u64,
        epoch: EpochNumberWithFraction,
    ) -> Option<&'static str> {
        let pos = CommitPos {
            tree: &self.tree,
            parent,
            number,
            epoch_full: epoch.full_value(),
        };
        let st = &self.tree.get(parent).state;
        let maturity = self.env.consensus.cellbase_maturity().full_value();
        for (i, inp) in kt.tx.inputs().into_iter().enumerate() {
            let cell = match st.live.get(&cell_key(&inp.previous_output())) {
                Some(c) => c,
                None => continue, // created inside the block: only since-free transactions get here
            };
            if let Some(v) = maturity_verdict(&pos, maturity, cell) {
                return Some(v);
            }
            let s: u64 = inp.since().into();
            let _ = i;
            if let Some(v) = since_verdict(&pos, s, cell) {
                return Some(v);
            }
        }
        if kt.wc_input {
            if let Err(e) = wc_outcome(witnesses, self.vm_version_at_epoch(epoch.number())) {
                return Some(e);
            }
        }
        kt.fixed_bad
    }

    // -- blocks ----------------------------------------------------------------------------------

    fn pick_parent(&self, op: &BlockOp) -> H {
        let tipn = self.tree.get(&self.tip).number;
        match op.parent_mode % 3 {
            0 => self.tip.clone(),
            1 => {
                let max_back = tipn.saturating_sub(self.base_number).min(3);
                if max_back == 0 {
                    return self.tip.clone();
                }
                let back = 1 + pick_idx(op.parent as u32, max_back as usize) as u64;
                self.tree.ancestor(&self.tip, tipn - back).unwrap().hash.clone()
            }
            _ => {
                let cands: Vec<&H> = self
                    .blocks
                    .iter()
                    .filter(|h| {
                        self.present(h)
                            && !self.on_main(h)
                            && self.tree.get(h).number >= self.base_number
                            && self.tree.get(h).number + 6 >= tipn
                    })
                    .collect();
                if cands.is_empty() {
                    self.tip.clone()
                } else if op.parent & 1 == 0 {
                    // the heaviest side block: the one most likely to overtake the main chain
                    let mut best = cands[0];
                    for c in &cands {
                        if self.tree.get(c).td > self.tree.get(best).td {
                            best = c;
                        }
                    }
                    best.clone()
                } else {
                    cands[pick_idx(op.parent as u32, cands.len())].clone()
                }
            }
        }
    }

    fn uncle_candidates(&self, parent: &H, new_epoch: u64, new_target: u32) -> Vec<H> {
        let p = self.tree.get(parent);
        let n = p.number + 1;
        let mut v = vec![];
        for h in &self.blocks {
            let u = self.tree.get(h);
            if u.invalid.is_some() || u.number >= n || u.number == 0 {
                continue;
            }
            if u.block.epoch().number() != new_epoch || u.block.compact_target() != new_target {
                continue;
            }
            if self.tree.is_ancestor(h, parent) || p.state.uncles.contains_key(&h32(h)) {
                continue;
            }
            let up = &u.parent;
            if !(self.tree.is_ancestor(up, parent) || p.state.uncles.contains_key(&h32(up))) {
                continue;
            }
            // an uncle must not have uncles/ proposals problems: plain model blocks are fine
            v.push(h.clone());
        }
        v
    }

    pub fn new_block(&mut self, op: &BlockOp) -> Option<BlockInfo> {
        self.new_block_on(op, None, None)
    }

    /// `parent`: explicit parent instead of the operation's selector; `focus`: propose / commit only
    /// this known transaction
    pub fn new_block_on(&mut self, op: &BlockOp, parent: Option<H>, focus: Option<usize>) -> Option<BlockInfo> {
        let parent = parent.unwrap_or_else(|| self.pick_parent(op));
        let p = self.tree.get(&parent).clone();
        let number = p.number + 1;
        let next = self
            .env
            .consensus
            .next_epoch_ext(&p.block.header(), &ModelEpochView(&self.tree))?
            .epoch();
        let epoch = next.number_with_fraction(number);
        let mut spec = BlockSpec {
            timestamp: self.timestamp(&parent, op.ts),
            miner_lock: Some(lock_variant(&self.env, op.miner % 4)),
            message: vec![op.miner],
            extension_extra: vec![0xe7; (op.ext_extra % 65) as usize],
            ..Default::default()
        };
        if op.uncle & 1 == 1 {
            let cands = self.uncle_candidates(&parent, next.number(), next.compact_target());
            if !cands.is_empty() {
                let u = &cands[pick_idx((op.uncle >> 1) as u32 * 2, cands.len())];
                spec.uncles = vec![self.tree.get(u).block.as_uncle()] as Vec<UncleBlockView>;
                self.label("block:with-uncle");
            }
        }
        // proposals: known transactions not committed on this branch, most recent first
        let uncommitted: Vec<usize> = (0..self.txs.len())
            .rev()
            .filter(|i| !p.state.tx_index.contains_key(&h32(&self.txs[*i].tx.hash())))
            .collect();
        for (pos, i) in uncommitted.iter().enumerate() {
            if spec.proposals.len() >= 8 {
                break;
            }
            let take = match focus {
                Some(f) => f == *i && op.propose_mask != 0,
                None => (op.propose_mask >> (pos % 16)) & 1 == 1,
            };
            if take {
                spec.proposals.push(self.txs[*i].tx.proposal_short_id());
            }
        }
        // commits
        let committable = self.tree.committable(&parent);
        let mut created: BTreeSet<CellKey> = BTreeSet::new();
        let mut spent: BTreeSet<CellKey> = BTreeSet::new();
        let mut bad: Option<String> = None;
        let mut bad_tx: Option<usize> = None;
        let mut committed: Vec<(usize, bool)> = vec![];
        let cand_idx: Vec<usize> = (0..self.txs.len())
            .filter(|i| {
                committable.contains(&self.txs[*i].id)
                    && !p.state.tx_index.contains_key(&h32(&self.txs[*i].tx.hash()))
            })
            .collect();
        for (pos, i) in cand_idx.iter().enumerate() {
            let take = match focus {
                Some(f) => f == *i && op.commit_mask != 0,
                None => (op.commit_mask >> (pos % 16)) & 1 == 1,
            };
            if !take {
                continue;
            }
            let kt = &self.txs[*i];
            let ins: Vec<CellKey> = kt.tx.inputs().into_iter().map(|x| cell_key(&x.previous_output())).collect();
            let all_in_parent = ins.iter().all(|k| p.state.live.contains_key(k));
            let resolvable = ins
                .iter()
                .all(|k| (p.state.live.contains_key(k) || created.contains(k)) && !spent.contains(k));
            if !resolvable || (!all_in_parent && (kt.since != 0 || kt.wc_input)) {
                continue;
            }
            let own = witnesses_of(&kt.tx);
            let mut alt = false;
            let mut ws = own.clone();
            // blocks that may carry one bad transaction try other witnesses on every transaction
            // behind the witness-checking lock
            if (op.witness_alt >> (pos % 16)) & 1 == 1 || (op.allow_bad && kt.wc_input && bad.is_none()) {
                let v = witness_variant(op.witness_sel.wrapping_add(pos as u8));
                if v != own {
                    ws = v;
                    alt = true;
                }
            }
            let mut verdict = self.commit_verdict(kt, &ws, &parent, number, epoch);
            if verdict.is_some() && !(op.allow_bad && bad.is_none()) {
                // fall back to a witness that satisfies the script; skip if still bad
                if verdict.map(|v| v.starts_with("script:")).unwrap_or(false) {
                    ws = witness_variant(1);
                    alt = ws != own;
                    verdict = self.commit_verdict(kt, &ws, &parent, number, epoch);
                }
                if verdict.is_some() {
                    continue;
                }
            }
            if let Some(v) = verdict {
                bad = Some(v.to_string());
                bad_tx = Some(spec.txs.len());
            }
            for k in ins {
                spent.insert(k);
            }
            for j in 0..kt.tx.outputs().len() {
                created.insert((h32(&kt.tx.hash()), j as u32));
            }
            let packed: Vec<ckb_types::packed::Bytes> = ws.iter().map(|w| Bytes::from(w.clone()).pack()).collect();
            spec.txs.push(kt.tx.as_advanced_builder().set_witnesses(packed).build());
            committed.push((*i, alt));
        }
        let mut opts = BuildOpts {
            use_node_reward_quirk: true,
            ..Default::default()
        };
        let has_reward = number > self.tree.window().1 + 1;
        let mut tx_root = false;
        if bad.is_none() {
            match op.invalid % 5 {
                1 => {
                    opts.dao_delta[3] = 1;
                    bad = Some("dao-field".into());
                }
                2 if has_reward => {
                    opts.reward_delta = 1;
                    bad = Some("reward".into());
                }
                3 => {
                    opts.flip_chain_root = true;
                    bad = Some("chain-root".into());
                }
                4 => {
                    tx_root = true;
                    bad = Some("bad-tx-root".into());
                }
                _ => {}
            }
        }
        let mut mb = match self.tree.build(&parent, &spec, &opts) {
            Ok(b) => b,
            Err(e) => {
                self.label(&format!("block:unbuildable:{}", e.split(' ').next().unwrap_or("")));
                return None;
            }
        };
        if tx_root {
            let b = mb
                .block
                .as_advanced_builder()
                .transactions_root(ckb_types::packed::Byte32::zero())
                .build_unchecked();
            mb.hash = b.hash();
            mb.block = b;
        }
        if self.tree.blocks.contains_key(&mb.hash) {
            self.label("block:duplicate");
            return None;
        }
        if let Some(r) = self.tree.reward_for_child_of(&parent) {
            if r.proposer != r.proposer_node_quirk {
                self.label("known:C06-block1-proposer-clamp");
            }
            if r.proposer > 0 {
                self.label("block:pays-proposer-reward");
            }
        }
        mb.invalid = bad.clone();
        self.note_cellbase(&mb);
        let h = self.tree.insert(mb);
        self.blocks.push(h.clone());
        Some(BlockInfo {
            hash: h,
            bad,
            bad_tx,
            committed,
        })
    }
}
