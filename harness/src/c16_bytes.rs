//! C16 byte-level targets, written once and driven both by proptest (`checks::c16`) and by the
//! cargo-fuzz crate under `/verif/fuzz` (`frame`, `message`).
//!
//! `target_frame(data)`   : `ckb_network::compress::{compress, decompress}` and
//!                          `LengthDelimitedCodecWithCompress` on raw bytes.
//! `target_message(data)` : every protocol payload type is decoded the way its handler decodes it
//!                          (`from_compatible_slice` / `from_slice`); on success every accessor,
//!                          view conversion, hash, size, JSON conversion and context-free verifier
//!                          is run under `catch_unwind`.
//!
//! Preconditions mirrored from the handlers (a panic behind a precondition the node establishes
//! before the call is NOT reported):
//!   * `SendBlock`: `!has_extra_fields() && block.count_extra_fields() <= 1`, then `check_data()`
//!     (sync/src/synchronizer/mod.rs `received` / `try_process`) before `into_view()`.
//!   * `CompactBlock`: `count_extra_fields() <= 1` (sync/src/relayer/mod.rs `received`); no
//!     `check_data()` (the handler does not call it either).
//!   * every other union item must also pass the strict `from_slice`.
//!   * JSON conversions and `TransactionView::output_with_data` say "checked data": they run only
//!     on transactions for which the `check_data()` rules hold (hash_type/dep_type values,
//!     outputs.len()==outputs_data.len()); alert JSON only after the utf-8 checks of
//!     `AlertRelayer::received`.
//!   * `BlockTransactionsVerifier` / `BlockUnclesVerifier` get indexes that are in range for the
//!     compact block (the node only ever passes indexes it computed itself).
use crate::common::Violation;
use ckb_chain_spec::consensus::{Consensus, ConsensusBuilder};
use ckb_network::bytes::{Bytes, BytesMut};
use ckb_network::compress::{LengthDelimitedCodecWithCompress, compress, decompress};
use ckb_pow::Pow;
use ckb_types::{core, packed, prelude::*};
use ckb_verification::{
    BlockVerifier, NonContextualBlockTxsVerifier, NonContextualTransactionVerifier,
};
use ckb_verification_traits::Verifier;
use std::cell::RefCell;
use std::panic::{AssertUnwindSafe, catch_unwind};
use std::sync::OnceLock;
use tokio_util::codec::{Decoder, Encoder, length_delimited};

/// network/src/compress.rs `MAX_UNCOMPRESSED_LEN` (private constant, value read from the source)
pub const MAX_UNCOMPRESSED_LEN: usize = 1 << 23;
/// network/src/compress.rs `COMPRESSION_SIZE_THRESHOLD`
pub const COMPRESSION_SIZE_THRESHOLD: usize = 1024;

// ------------------------------------------------------------------------------------------------
// panic capture

thread_local! {
    static LAST_PANIC: RefCell<Option<(String, String)>> = const { RefCell::new(None) };
    /// depth of `guard` scopes on this thread: panics outside a guard are harness bugs and are
    /// printed by the default hook
    static IN_GUARD: std::cell::Cell<u32> = const { std::cell::Cell::new(0) };
}

/// Installs a panic hook that records (location, message) of the last panic of this thread and
/// stays silent.  Not called by the libFuzzer targets (there a panic aborts, which is the crash).
pub fn install_panic_capture() {
    static ONCE: OnceLock<()> = OnceLock::new();
    ONCE.get_or_init(|| {
        let verbose = std::env::var_os("VERIF_PANIC_VERBOSE").is_some();
        let prev = std::panic::take_hook();
        std::panic::set_hook(Box::new(move |info| {
            let loc = info
                .location()
                .map(|l| format!("{}:{}", short_path(l.file()), l.line()))
                .unwrap_or_else(|| "?".into());
            let msg = if let Some(s) = info.payload().downcast_ref::<&str>() {
                s.to_string()
            } else if let Some(s) = info.payload().downcast_ref::<String>() {
                s.clone()
            } else {
                "<non-string panic>".into()
            };
            LAST_PANIC.with(|p| *p.borrow_mut() = Some((loc, msg)));
            if verbose || IN_GUARD.with(|g| g.get()) == 0 {
                prev(info);
            }
        }));
    });
}

/// path relative to the repository / registry crate (stable across checkouts)
fn short_path(p: &str) -> String {
    for marker in [
        "/util/", "/sync/", "/network/", "/verification/", "/chain/", "/tx-pool/", "/shared/",
        "/store/", "/spec/", "/pow/", "/script/", "/error/", "/traits/",
    ] {
        if let Some(i) = p.find(marker) {
            return p[i + 1..].to_string();
        }
    }
    if let Some(i) = p.find("/registry/src/") {
        let rest = &p[i + "/registry/src/".len()..];
        if let Some(j) = rest.find('/') {
            return rest[j + 1..].to_string();
        }
    }
    p.to_string()
}

pub fn take_last_panic() -> Option<(String, String)> {
    LAST_PANIC.with(|p| p.borrow_mut().take())
}

/// Runs `f`; a panic becomes a violation whose signature names the message type, the stage and
/// the panic location.
pub fn guard<R>(ty: &str, stage: &str, f: impl FnOnce() -> R) -> Result<R, Violation> {
    LAST_PANIC.with(|p| *p.borrow_mut() = None);
    IN_GUARD.with(|g| g.set(g.get() + 1));
    let r = catch_unwind(AssertUnwindSafe(f));
    IN_GUARD.with(|g| g.set(g.get() - 1));
    match r {
        Ok(r) => Ok(r),
        Err(_) => {
            let (loc, msg) = take_last_panic().unwrap_or_else(|| ("?".into(), "?".into()));
            let msg: String = msg.chars().take(300).collect();
            Err(Violation::new(
                format!("panic:{ty}:{stage}@{loc}"),
                format!("{ty}: {stage} panicked at {loc}: {msg}"),
            ))
        }
    }
}

fn consensus() -> &'static Consensus {
    static C: OnceLock<Consensus> = OnceLock::new();
    C.get_or_init(|| ConsensusBuilder::default().build())
}

// ------------------------------------------------------------------------------------------------
// frame target

#[derive(Default, Debug, Clone)]
pub struct FrameStats {
    pub decompress_ok: bool,
    pub decompress_compressed_ok: bool,
    pub frames_decoded: u32,
    pub compressed_frames_decoded: u32,
    pub codec_errors: u32,
    pub over_bound_rejected: bool,
}

fn codec(max_frame: usize, enable_compress: bool) -> LengthDelimitedCodecWithCompress {
    LengthDelimitedCodecWithCompress::new(
        enable_compress,
        length_delimited::Builder::new()
            .max_frame_length(max_frame)
            .new_codec(),
        100.into(),
    )
}

/// frame-length limits of `SupportProtocols::max_frame_length` that matter (smallest, a middle
/// one, largest)
pub const FRAME_LIMITS: [usize; 3] = [1024, 512 * 1024, 4 * 1024 * 1024];

pub fn target_frame(data: &[u8]) -> Result<FrameStats, Violation> {
    let mut st = FrameStats::default();

    // 1. legacy whole-message decompress (used by protocols that negotiate no codec compression)
    let res = guard("frame", "decompress", || decompress(BytesMut::from(data)))?;
    let declared = if data.len() > 1 && data[0] & 0x80 != 0 {
        snap::raw::decompress_len(&data[1..]).ok()
    } else {
        None
    };
    match res {
        Ok(out) => {
            st.decompress_ok = true;
            if out.len() > MAX_UNCOMPRESSED_LEN {
                return Err(Violation::new(
                    "frame:decompress:size-bound-exceeded",
                    format!(
                        "decompress returned {} bytes > MAX_UNCOMPRESSED_LEN {} from a {} byte input",
                        out.len(),
                        MAX_UNCOMPRESSED_LEN,
                        data.len()
                    ),
                ));
            }
            if data[0] & 0x80 != 0 {
                st.decompress_compressed_ok = true;
                if declared != Some(out.len()) {
                    return Err(Violation::new(
                        "frame:decompress:length-differs-from-declared",
                        format!("declared {:?}, got {}", declared, out.len()),
                    ));
                }
            } else if out.as_ref() != &data[1..] {
                return Err(Violation::new(
                    "frame:decompress:uncompressed-payload-altered",
                    format!("input {} bytes, output {} bytes", data.len(), out.len()),
                ));
            }
        }
        Err(_) => {
            if let Some(d) = declared {
                if d > MAX_UNCOMPRESSED_LEN {
                    st.over_bound_rejected = true;
                }
            }
        }
    }

    // 2. the stream codec, for several protocol frame limits: feed the bytes as a stream
    for &limit in &FRAME_LIMITS {
        let mut c = codec(limit, true);
        let mut buf = BytesMut::from(data);
        let mut rounds = 0usize;
        loop {
            rounds += 1;
            if rounds > data.len() / 4 + 4 {
                return Err(Violation::new(
                    "frame:codec:decode-does-not-consume",
                    format!("{rounds} decode rounds over {} bytes", data.len()),
                ));
            }
            let before = buf.len();
            let head: Option<(usize, u8)> = if buf.len() >= 5 {
                Some((
                    u32::from_be_bytes([buf[0], buf[1], buf[2], buf[3]]) as usize,
                    buf[4],
                ))
            } else {
                None
            };
            let r = guard("frame", "codec-decode", || c.decode(&mut buf))?;
            match r {
                Ok(Some(item)) => {
                    st.frames_decoded += 1;
                    if item.len() > MAX_UNCOMPRESSED_LEN {
                        return Err(Violation::new(
                            "frame:codec:size-bound-exceeded",
                            format!(
                                "codec(max_frame_length={limit}) yielded {} bytes > {}",
                                item.len(),
                                MAX_UNCOMPRESSED_LEN
                            ),
                        ));
                    }
                    if let Some((flen, flag)) = head {
                        if flen > limit {
                            return Err(Violation::new(
                                "frame:codec:frame-longer-than-max-frame-length",
                                format!("frame length {flen} accepted with limit {limit}"),
                            ));
                        }
                        if flag & 0x80 != 0 {
                            st.compressed_frames_decoded += 1;
                        } else if item.len() + 1 != flen {
                            return Err(Violation::new(
                                "frame:codec:uncompressed-payload-length",
                                format!("frame length {flen}, payload {}", item.len()),
                            ));
                        }
                    }
                    if buf.len() >= before {
                        return Err(Violation::new(
                            "frame:codec:decode-does-not-consume",
                            "a frame was yielded without consuming input".to_string(),
                        ));
                    }
                }
                Ok(None) => break,
                Err(_) => {
                    st.codec_errors += 1;
                    break;
                }
            }
        }
    }

    // 3. compress -> decompress and encode -> decode give the input back (never panic on the
    //    sending side either; the bytes are what a peer asked us to relay)
    if data.len() <= 64 * 1024 {
        let packed = guard("frame", "compress", || compress(Bytes::copy_from_slice(data)))?;
        let back = guard("frame", "decompress-after-compress", || {
            decompress(BytesMut::from(packed.as_ref()))
        })?;
        match back {
            Ok(b) if b.as_ref() == data => {}
            other => {
                return Err(Violation::new(
                    "frame:roundtrip:compress-decompress",
                    format!(
                        "input {} bytes, after round trip {:?}",
                        data.len(),
                        other.map(|b| b.len())
                    ),
                ));
            }
        }
        let mut c = codec(FRAME_LIMITS[2], true);
        let mut dst = BytesMut::new();
        let enc = guard("frame", "codec-encode", || {
            c.encode(Bytes::copy_from_slice(data), &mut dst)
        })?;
        if enc.is_ok() && !data.is_empty() {
            let dec = guard("frame", "codec-decode-after-encode", || c.decode(&mut dst))?;
            match dec {
                Ok(Some(b)) if b.as_ref() == data => {}
                other => {
                    return Err(Violation::new(
                        "frame:roundtrip:encode-decode",
                        format!(
                            "input {} bytes, after round trip {:?}",
                            data.len(),
                            other.map(|b| b.map(|b| b.len()))
                        ),
                    ));
                }
            }
        }
    }
    Ok(st)
}

// ------------------------------------------------------------------------------------------------
// message target

/// indexes into `MsgStats::decoded`
pub const TYPES: [&str; 13] = [
    "SyncMessage",
    "RelayMessage",
    "LightClientMessage",
    "BlockFilterMessage",
    "Time",
    "Alert",
    "PingMessage",
    "DiscoveryMessage",
    "IdentifyMessage",
    "Identify",
    "HolePunchingMessage",
    "RelayBundle",
    "RelayBundle:verifiers-reached",
];

#[derive(Default, Debug, Clone)]
pub struct MsgStats {
    /// bit i set = `TYPES[i]` decoded successfully and was walked
    pub decoded: u32,
    /// item names walked, e.g. "RelayMessage::CompactBlock"
    pub items: Vec<&'static str>,
    /// pre-check verdicts worth counting
    pub notes: Vec<&'static str>,
}

impl MsgStats {
    fn mark(&mut self, ty: &'static str) {
        if let Some(i) = TYPES.iter().position(|t| *t == ty) {
            self.decoded |= 1 << i;
        }
    }
    pub fn any(&self) -> bool {
        self.decoded != 0
    }
}

fn generic<'r, R: Reader<'r> + std::fmt::Display + std::fmt::Debug>(
    ty: &str,
    r: &R,
) -> Result<(), Violation> {
    guard(ty, "display", || {
        let s = format!("{r}");
        std::hint::black_box(s.len())
    })?;
    guard(ty, "debug", || {
        let s = format!("{r:?}");
        std::hint::black_box(s.len())
    })?;
    guard(ty, "to_entity", || {
        let e = r.to_entity();
        let b = e.as_bytes();
        std::hint::black_box(b.len())
    })?;
    Ok(())
}

/// the rules of `check_data()` (util/gen-types/src/extension/check_data.rs) for one transaction
pub fn tx_check_data(tx: &packed::TransactionReader<'_>) -> bool {
    let raw = tx.raw();
    let script_ok = |s: &packed::ScriptReader<'_>| {
        core::ScriptHashType::verify_value(s.hash_type().into())
    };
    raw.outputs().len() == raw.outputs_data().len()
        && raw.cell_deps().iter().all(|d| {
            let v: u8 = d.dep_type().into();
            v <= 1
        })
        && raw.outputs().iter().all(|o| {
            script_ok(&o.lock()) && o.type_().to_opt().map(|t| script_ok(&t)).unwrap_or(true)
        })
}

fn walk_header(ty: &str, h: packed::Header) -> Result<(), Violation> {
    let view = guard(ty, "header.into_view", || h.clone().into_view())?;
    guard(ty, "header.accessors", || {
        let e = view.epoch();
        std::hint::black_box((
            view.hash(),
            view.number(),
            view.version(),
            view.timestamp(),
            view.compact_target(),
            view.difficulty(),
            view.nonce(),
            view.is_genesis(),
            view.dao(),
            view.parent_hash(),
            view.extra_hash(),
            view.proposals_hash(),
            view.transactions_root(),
            e.number(),
            e.index(),
            e.length(),
            e.is_well_formed(),
            e.full_value(),
            format!("{e}"),
        ));
        std::hint::black_box((h.calc_header_hash(), h.calc_pow_hash(), h.as_reader().calc_pow_hash()));
    })?;
    guard(ty, "header.pow-engines", || {
        for p in [Pow::Dummy, Pow::Eaglesong, Pow::EaglesongBlake2b] {
            std::hint::black_box(p.engine().verify(&h));
        }
    })?;
    guard(ty, "header.json", || {
        let j = ckb_jsonrpc_types::HeaderView::from(view.clone());
        let s = serde_json::to_string(&j).expect("json");
        let back: ckb_jsonrpc_types::HeaderView = serde_json::from_str(&s).expect("json back");
        let p: packed::Header = back.inner.into();
        std::hint::black_box(p.as_slice().len())
    })?;
    Ok(())
}

fn walk_tx(ty: &str, tx: packed::Transaction) -> Result<(), Violation> {
    let checked = tx_check_data(&tx.as_reader());
    let view = guard(ty, "tx.into_view", || tx.clone().into_view())?;
    guard(ty, "tx.accessors", || {
        std::hint::black_box((
            view.hash(),
            view.witness_hash(),
            tx.calc_tx_hash(),
            tx.calc_witness_hash(),
            tx.raw().calc_tx_hash(),
            view.proposal_short_id(),
            tx.proposal_short_id(),
            view.is_cellbase(),
            view.version(),
            view.outputs_capacity().is_ok(),
            view.output_pts().len(),
            view.output_pts_iter().count(),
            view.input_pts_iter().count(),
            view.unique_parents().len(),
            view.outputs_with_data_iter().count(),
            view.cell_deps_iter().count(),
            view.header_deps_iter().count(),
            tx.serialized_size_in_block(),
            tx.total_size(),
            view.witnesses().len(),
        ));
        for (i, o) in view.outputs().into_iter().enumerate() {
            std::hint::black_box((
                view.output(i).is_some(),
                o.lock().calc_script_hash(),
                o.calc_lock_hash(),
                o.type_().to_opt().map(|t| t.calc_script_hash()),
                o.lock().is_hash_type_type(),
                o.occupied_capacity(core::Capacity::zero()).is_ok(),
                o.is_lack_of_capacity(core::Capacity::zero()).is_ok(),
            ));
        }
        for i in view.inputs().into_iter() {
            std::hint::black_box((i.previous_output().is_null(), i.previous_output().to_cell_key()));
        }
        for w in view.witnesses().into_iter() {
            std::hint::black_box(packed::CellbaseWitness::from_slice(&w.raw_data()).is_ok());
        }
        for d in view.outputs_data().into_iter() {
            std::hint::black_box(packed::CellOutput::calc_data_hash(&d.raw_data()));
        }
    })?;
    guard(ty, "tx.non-contextual-verifier", || {
        std::hint::black_box(
            NonContextualTransactionVerifier::new(&view, consensus())
                .verify()
                .is_ok(),
        )
    })?;
    if checked {
        guard(ty, "tx.checked.output_with_data", || {
            for i in 0..view.outputs().len() + 1 {
                std::hint::black_box(view.output_with_data(i).is_some());
            }
        })?;
        guard(ty, "tx.checked.json", || {
            let j = ckb_jsonrpc_types::TransactionView::from(view.clone());
            let s = serde_json::to_string(&j).expect("json");
            let back: ckb_jsonrpc_types::TransactionView =
                serde_json::from_str(&s).expect("json back");
            let p: packed::Transaction = back.inner.into();
            std::hint::black_box(p.as_slice().len())
        })?;
    }
    Ok(())
}

fn walk_uncle(ty: &str, u: packed::UncleBlock) -> Result<(), Violation> {
    let view = guard(ty, "uncle.into_view", || u.clone().into_view())?;
    guard(ty, "uncle.accessors", || {
        std::hint::black_box((
            view.hash(),
            view.calc_proposals_hash(),
            u.calc_header_hash(),
            u.calc_proposals_hash(),
            view.header().hash(),
            view.difficulty(),
            view.nonce(),
            view.data().proposals().len(),
        ));
        let j = ckb_jsonrpc_types::UncleBlockView::from(view.clone());
        std::hint::black_box(serde_json::to_string(&j).expect("json").len());
    })?;
    walk_header(ty, u.header())
}

/// `block` must already satisfy the handler's pre-checks (<= 1 extra field)
fn walk_block(ty: &str, block: packed::Block, st: &mut MsgStats) -> Result<(), Violation> {
    let checked = block
        .as_reader()
        .transactions()
        .iter()
        .all(|t| tx_check_data(&t));
    if block.count_extra_fields() == 1 {
        st.notes.push("block:has-extension-field");
    }
    // what BlockProcess::execute does first
    let view = guard(ty, "block.into_view", || block.clone().into_view())?;
    let view2 = guard(ty, "block.into_view_without_reset_header", || {
        block.clone().into_view_without_reset_header()
    })?;
    guard(ty, "block.accessors", || {
        std::hint::black_box((
            view.hash(),
            view2.hash(),
            view.number(),
            view.epoch().number(),
            view.difficulty(),
            view.nonce(),
            view.is_genesis(),
            view.extension().map(|e| e.len()),
            view.calc_uncles_hash(),
            view.calc_extension_hash(),
            view.calc_extra_hash().extra_hash(),
            view.calc_proposals_hash(),
            view.calc_transactions_root(),
            view.calc_raw_transactions_root(),
            view.calc_witnesses_root(),
            view2.calc_transactions_root() == view2.transactions_root(),
            view.union_proposal_ids().len(),
            view.union_proposal_ids_iter().count(),
            view.uncle_hashes().len(),
            view.tx_hashes().len(),
            view.tx_witness_hashes().len(),
            view.as_uncle().hash(),
            view.transaction(0).is_some(),
            view.output(0, 0).is_some(),
            view.data().serialized_size_without_uncle_proposals(),
            block.as_reader().serialized_size_without_uncle_proposals(),
            block.calc_header_hash(),
            block.calc_proposals_hash(),
            block.calc_uncles_hash(),
            block.calc_extension_hash(),
            block.calc_tx_hashes().len(),
            block.calc_tx_witness_hashes().len(),
            block.as_uncle().calc_header_hash(),
            block.extra_field(0).map(|b| b.len()),
            block.extension().map(|b| b.len()),
            block.as_reader().extension().map(|b| b.len()),
        ));
        for u in view.uncles().into_iter() {
            std::hint::black_box((u.hash(), u.calc_proposals_hash()));
        }
        std::hint::black_box(block.clone().reset_header().calc_header_hash());
    })?;
    guard(ty, "block.block-verifier", || {
        std::hint::black_box(BlockVerifier::new(consensus()).verify(&view).is_ok());
        std::hint::black_box(BlockVerifier::new(consensus()).verify(&view2).is_ok());
    })?;
    guard(ty, "block.non-contextual-txs-verifier", || {
        std::hint::black_box(
            NonContextualBlockTxsVerifier::new(consensus())
                .verify(&view)
                .is_ok(),
        )
    })?;
    if checked {
        guard(ty, "block.checked.json", || {
            let j = ckb_jsonrpc_types::BlockView::from(view.clone());
            let s = serde_json::to_string(&j).expect("json");
            let back: ckb_jsonrpc_types::BlockView = serde_json::from_str(&s).expect("json back");
            let p: core::BlockView = back.into();
            std::hint::black_box(p.data().as_slice().len());
        })?;
    }
    for (i, tx) in block.transactions().into_iter().enumerate() {
        if i >= 64 {
            break;
        }
        walk_tx(ty, tx)?;
    }
    for (i, u) in block.uncles().into_iter().enumerate() {
        if i >= 16 {
            break;
        }
        walk_uncle(ty, u)?;
    }
    walk_header(ty, block.header())
}

/// `cb` must already satisfy the handler's pre-check (<= 1 extra field).  Returns the verdict of
/// CompactBlockVerifier (true = ok).
fn walk_compact_block(
    ty: &str,
    cb: &packed::CompactBlock,
    st: &mut MsgStats,
) -> Result<bool, Violation> {
    if cb.count_extra_fields() == 1 {
        st.notes.push("compact:has-extension-field");
    }
    guard(ty, "compact.accessors", || {
        let header = cb.header().into_view();
        std::hint::black_box((
            header.hash(),
            cb.calc_header_hash(),
            cb.txs_len(),
            cb.short_id_indexes().len(),
            cb.block_short_ids().len(),
            cb.uncles().len(),
            cb.proposals().len(),
            cb.extra_field(0).map(|b| b.len()),
        ));
        for pt in cb.prefilled_transactions().into_iter() {
            let i: usize = pt.index().into();
            std::hint::black_box((i, pt.transaction().proposal_short_id()));
        }
    })?;
    // read by Relayer::reconstruct_block on every compact block that passed the pre-checks
    guard(ty, "compact.extension", || {
        std::hint::black_box(cb.extension().map(|b| b.len()))
    })?;
    let ok = guard(ty, "compact.compact-block-verifier", || {
        ckb_sync::verif::compact_block_verify(cb).is_ok()
    })?;
    st.notes.push(if ok {
        "compact:verifier-ok"
    } else {
        "compact:verifier-rejects"
    });
    for (i, pt) in cb.prefilled_transactions().into_iter().enumerate() {
        if i >= 32 {
            break;
        }
        walk_tx(ty, pt.transaction())?;
    }
    walk_header(ty, cb.header())?;
    Ok(ok)
}

fn walk_sync(data: &[u8], st: &mut MsgStats) -> Result<(), Violation> {
    let ty = "SyncMessage";
    let Ok(msg) = guard(ty, "from_compatible_slice", || {
        packed::SyncMessageReader::from_compatible_slice(data)
    })?
    else {
        return Ok(());
    };
    let strict = packed::SyncMessageReader::from_slice(data).is_ok();
    let item = msg.to_enum();
    match item {
        packed::SyncMessageUnionReader::SendBlock(r) => {
            // mirror of the guard in Synchronizer::received (incl. the extension check of fix 5d5960e)
            let malformed_extension = r
                .block()
                .extra_field(0)
                .is_some_and(|d| <packed::BytesReader as Reader>::verify(d, false).is_err());
            if r.has_extra_fields() || r.block().count_extra_fields() > 1 || malformed_extension {
                st.notes.push("sync:send-block-too-many-fields");
                return Ok(());
            }
            st.mark(ty);
            st.items.push("SyncMessage::SendBlock");
            generic(ty, &msg)?;
            // try_process: check_data() gates BlockProcess
            let checked = guard(ty, "send-block.check_data", || r.check_data())?;
            if !checked {
                st.notes.push("sync:send-block-check_data-false");
                return Ok(());
            }
            walk_block("SyncMessage::SendBlock", r.block().to_entity(), st)
        }
        _ if !strict => Ok(()),
        packed::SyncMessageUnionReader::GetHeaders(r) => {
            st.mark(ty);
            st.items.push("SyncMessage::GetHeaders");
            generic(ty, &msg)?;
            guard(ty, "get-headers.accessors", || {
                std::hint::black_box((
                    r.hash_stop().to_entity(),
                    r.block_locator_hashes().iter().map(|h| h.to_entity()).count(),
                ))
            })?;
            Ok(())
        }
        packed::SyncMessageUnionReader::SendHeaders(r) => {
            st.mark(ty);
            st.items.push("SyncMessage::SendHeaders");
            generic(ty, &msg)?;
            for (i, h) in r.headers().iter().enumerate() {
                if i >= 64 {
                    break;
                }
                walk_header("SyncMessage::SendHeaders", h.to_entity())?;
            }
            Ok(())
        }
        packed::SyncMessageUnionReader::GetBlocks(r) => {
            st.mark(ty);
            st.items.push("SyncMessage::GetBlocks");
            generic(ty, &msg)?;
            guard(ty, "get-blocks.accessors", || {
                std::hint::black_box(r.block_hashes().iter().map(|h| h.to_entity()).count())
            })?;
            Ok(())
        }
        packed::SyncMessageUnionReader::InIBD(_) => {
            st.mark(ty);
            st.items.push("SyncMessage::InIBD");
            generic(ty, &msg)
        }
    }
}

fn decode_relay(data: &[u8]) -> Option<packed::RelayMessageReader<'_>> {
    let msg = packed::RelayMessageReader::from_compatible_slice(data).ok()?;
    match msg.to_enum() {
        packed::RelayMessageUnionReader::CompactBlock(r) => {
            // mirror of the guard in Relayer::received (incl. the extension check of fix 5d5960e)
            let malformed_extension = r
                .to_entity()
                .extra_field(0)
                .is_some_and(|d| <packed::BytesReader as Reader>::verify(&d, false).is_err());
            if r.count_extra_fields() > 1 || malformed_extension {
                None
            } else {
                Some(msg)
            }
        }
        _ => packed::RelayMessageReader::from_slice(data).ok(),
    }
}

fn walk_relay(data: &[u8], st: &mut MsgStats) -> Result<(), Violation> {
    let ty = "RelayMessage";
    let Some(msg) = guard(ty, "decode", || decode_relay(data))? else {
        return Ok(());
    };
    st.mark(ty);
    generic(ty, &msg)?;
    match msg.to_enum() {
        packed::RelayMessageUnionReader::CompactBlock(r) => {
            st.items.push("RelayMessage::CompactBlock");
            walk_compact_block("RelayMessage::CompactBlock", &r.to_entity(), st)?;
        }
        packed::RelayMessageUnionReader::RelayTransactions(r) => {
            st.items.push("RelayMessage::RelayTransactions");
            if guard(ty, "relay-transactions.check_data", || r.check_data())? {
                for (i, rt) in r.transactions().iter().enumerate() {
                    if i >= 64 {
                        break;
                    }
                    let cycles: u64 = rt.cycles().into();
                    std::hint::black_box(cycles);
                    walk_tx(
                        "RelayMessage::RelayTransactions",
                        rt.transaction().to_entity(),
                    )?;
                }
            } else {
                st.notes.push("relay:relay-transactions-check_data-false");
            }
        }
        packed::RelayMessageUnionReader::RelayTransactionHashes(r) => {
            st.items.push("RelayMessage::RelayTransactionHashes");
            std::hint::black_box(r.tx_hashes().iter().map(|h| h.to_entity()).count());
        }
        packed::RelayMessageUnionReader::GetRelayTransactions(r) => {
            st.items.push("RelayMessage::GetRelayTransactions");
            std::hint::black_box(r.tx_hashes().iter().map(|h| h.to_entity()).count());
        }
        packed::RelayMessageUnionReader::GetBlockTransactions(r) => {
            st.items.push("RelayMessage::GetBlockTransactions");
            guard(ty, "get-block-transactions.accessors", || {
                let a: Vec<u32> = r.indexes().iter().map(|i| i.into()).collect();
                let b: Vec<u32> = r.uncle_indexes().iter().map(|i| i.into()).collect();
                std::hint::black_box((a.len(), b.len(), r.block_hash().to_entity()))
            })?;
        }
        packed::RelayMessageUnionReader::BlockTransactions(r) => {
            st.items.push("RelayMessage::BlockTransactions");
            if guard(ty, "block-transactions.check_data", || r.check_data())? {
                for (i, tx) in r.transactions().iter().enumerate() {
                    if i >= 64 {
                        break;
                    }
                    walk_tx("RelayMessage::BlockTransactions", tx.to_entity())?;
                }
                for (i, u) in r.uncles().iter().enumerate() {
                    if i >= 16 {
                        break;
                    }
                    walk_uncle("RelayMessage::BlockTransactions", u.to_entity())?;
                }
            } else {
                st.notes.push("relay:block-transactions-check_data-false");
            }
        }
        packed::RelayMessageUnionReader::GetBlockProposal(r) => {
            st.items.push("RelayMessage::GetBlockProposal");
            std::hint::black_box((
                r.proposals().iter().map(|p| p.to_entity()).count(),
                r.block_hash().to_entity(),
            ));
        }
        packed::RelayMessageUnionReader::BlockProposal(r) => {
            st.items.push("RelayMessage::BlockProposal");
            for (i, tx) in r.transactions().iter().enumerate() {
                if i >= 64 {
                    break;
                }
                // BlockProposalProcess converts without check_data
                let ty = "RelayMessage::BlockProposal";
                let view = guard(ty, "tx.into_view", || tx.to_entity().into_view())?;
                std::hint::black_box((view.hash(), view.proposal_short_id()));
                if tx_check_data(&tx) {
                    walk_tx(ty, tx.to_entity())?;
                }
            }
        }
    }
    Ok(())
}

fn walk_verifiable_header(ty: &str, vh: packed::VerifiableHeader) -> Result<(), Violation> {
    guard(ty, "verifiable-header.accessors", || {
        let cvh: ckb_types::utilities::merkle_mountain_range::VerifiableHeader = vh.clone().into();
        std::hint::black_box((
            cvh.is_valid(0),
            // the argument is local configuration (an epoch number, < 2^24), not peer data
            cvh.is_valid((1 << 24) - 1),
            cvh.is_valid(vh.header().into_view().epoch().number()),
            vh.parent_chain_root().calc_mmr_hash(),
            vh.parent_chain_root().is_default(),
            vh.extension().to_opt().map(|e| e.len()),
            vh.uncles_hash(),
        ));
        let d = vh.parent_chain_root();
        let td: ckb_types::U256 = d.total_difficulty().into();
        let a: u64 = d.start_number().into();
        let b: u64 = d.end_number().into();
        std::hint::black_box((td, a, b));
    })?;
    // used by light clients on the peer-supplied header (parent total difficulty + own difficulty)
    guard(ty, "verifiable-header.total_difficulty", || {
        let cvh: ckb_types::utilities::merkle_mountain_range::VerifiableHeader = vh.clone().into();
        std::hint::black_box(cvh.total_difficulty())
    })?;
    walk_header(ty, vh.header())
}

fn walk_light_client(data: &[u8], st: &mut MsgStats) -> Result<(), Violation> {
    let ty = "LightClientMessage";
    // the server decodes strictly (util/light-client-protocol-server/src/lib.rs); clients of
    // newer versions decode compatibly: walk whatever the compatible decoder accepts
    let Ok(msg) = guard(ty, "from_compatible_slice", || {
        packed::LightClientMessageReader::from_compatible_slice(data)
    })?
    else {
        return Ok(());
    };
    st.mark(ty);
    generic(ty, &msg)?;
    use packed::LightClientMessageUnionReader as U;
    match msg.to_enum() {
        U::GetLastState(r) => {
            st.items.push("LightClientMessage::GetLastState");
            std::hint::black_box(r.subscribe().as_slice()[0]);
        }
        U::SendLastState(r) => {
            st.items.push("LightClientMessage::SendLastState");
            walk_verifiable_header(ty, r.last_header().to_entity())?;
        }
        U::GetLastStateProof(r) => {
            st.items.push("LightClientMessage::GetLastStateProof");
            guard(ty, "get-last-state-proof.accessors", || {
                let n: u64 = r.start_number().into();
                let l: u64 = r.last_n_blocks().into();
                let b: ckb_types::U256 = r.difficulty_boundary().into();
                let ds: Vec<ckb_types::U256> = r.difficulties().iter().map(|d| d.into()).collect();
                std::hint::black_box((n, l, b, ds.len()))
            })?;
        }
        U::SendLastStateProof(r) => {
            st.items.push("LightClientMessage::SendLastStateProof");
            walk_verifiable_header(ty, r.last_header().to_entity())?;
            for (i, h) in r.headers().iter().enumerate() {
                if i >= 32 {
                    break;
                }
                walk_verifiable_header(ty, h.to_entity())?;
            }
            for d in r.proof().iter() {
                std::hint::black_box(d.to_entity().calc_mmr_hash());
            }
        }
        U::GetBlocksProof(r) => {
            st.items.push("LightClientMessage::GetBlocksProof");
            std::hint::black_box(r.block_hashes().iter().map(|h| h.to_entity()).count());
        }
        U::SendBlocksProof(r) => {
            st.items.push("LightClientMessage::SendBlocksProof");
            walk_verifiable_header(ty, r.last_header().to_entity())?;
            for (i, h) in r.headers().iter().enumerate() {
                if i >= 32 {
                    break;
                }
                walk_header(ty, h.to_entity())?;
            }
            guard(ty, "send-blocks-proof.v1-fields", || {
                std::hint::black_box((r.count_extra_fields(), r.has_extra_fields()));
                if let Ok(v1) = packed::SendBlocksProofV1Reader::from_compatible_slice(r.as_slice())
                {
                    std::hint::black_box((
                        v1.blocks_uncles_hash().len(),
                        v1.blocks_extension().iter().map(|e| e.to_opt().map(|b| b.len())).count(),
                        format!("{v1}").len(),
                    ));
                }
            })?;
        }
        U::GetTransactionsProof(r) => {
            st.items.push("LightClientMessage::GetTransactionsProof");
            std::hint::black_box(r.tx_hashes().iter().map(|h| h.to_entity()).count());
        }
        U::SendTransactionsProof(r) => {
            st.items.push("LightClientMessage::SendTransactionsProof");
            walk_verifiable_header(ty, r.last_header().to_entity())?;
            for (i, fb) in r.filtered_blocks().iter().enumerate() {
                if i >= 16 {
                    break;
                }
                walk_header(ty, fb.header().to_entity())?;
                guard(ty, "filtered-block.proof", || {
                    let idx: Vec<u32> = fb.proof().indices().iter().map(|i| i.into()).collect();
                    std::hint::black_box((idx.len(), fb.proof().lemmas().len(), fb.witnesses_root().to_entity()))
                })?;
                for (k, tx) in fb.transactions().iter().enumerate() {
                    if k >= 32 {
                        break;
                    }
                    let view = guard(ty, "tx.into_view", || tx.to_entity().into_view())?;
                    std::hint::black_box(view.hash());
                    if tx_check_data(&tx) {
                        walk_tx(ty, tx.to_entity())?;
                    }
                }
            }
            guard(ty, "send-transactions-proof.v1-fields", || {
                if let Ok(v1) =
                    packed::SendTransactionsProofV1Reader::from_compatible_slice(r.as_slice())
                {
                    std::hint::black_box((
                        v1.blocks_uncles_hash().len(),
                        v1.blocks_extension().len(),
                        format!("{v1}").len(),
                    ));
                }
            })?;
        }
    }
    Ok(())
}

fn walk_filter(data: &[u8], st: &mut MsgStats) -> Result<(), Violation> {
    let ty = "BlockFilterMessage";
    let Ok(msg) = guard(ty, "from_compatible_slice", || {
        packed::BlockFilterMessageReader::from_compatible_slice(data)
    })?
    else {
        return Ok(());
    };
    st.mark(ty);
    generic(ty, &msg)?;
    use packed::BlockFilterMessageUnionReader as U;
    guard(ty, "accessors", || match msg.to_enum() {
        U::GetBlockFilters(r) => {
            st.items.push("BlockFilterMessage::GetBlockFilters");
            let n: u64 = r.start_number().into();
            std::hint::black_box(n);
        }
        U::BlockFilters(r) => {
            st.items.push("BlockFilterMessage::BlockFilters");
            let n: u64 = r.start_number().into();
            std::hint::black_box((
                n,
                r.block_hashes().len(),
                r.filters().iter().map(|f| f.raw_data().len()).sum::<usize>(),
            ));
        }
        U::GetBlockFilterHashes(r) => {
            st.items.push("BlockFilterMessage::GetBlockFilterHashes");
            let n: u64 = r.start_number().into();
            std::hint::black_box(n);
        }
        U::BlockFilterHashes(r) => {
            st.items.push("BlockFilterMessage::BlockFilterHashes");
            let n: u64 = r.start_number().into();
            std::hint::black_box((
                n,
                r.parent_block_filter_hash().to_entity(),
                r.block_filter_hashes().len(),
            ));
        }
        U::GetBlockFilterCheckPoints(r) => {
            st.items.push("BlockFilterMessage::GetBlockFilterCheckPoints");
            let n: u64 = r.start_number().into();
            std::hint::black_box(n);
        }
        U::BlockFilterCheckPoints(r) => {
            st.items.push("BlockFilterMessage::BlockFilterCheckPoints");
            let n: u64 = r.start_number().into();
            std::hint::black_box((n, r.block_filter_hashes().len()));
        }
    })?;
    Ok(())
}

fn walk_time(data: &[u8], st: &mut MsgStats) -> Result<(), Violation> {
    let ty = "Time";
    let Ok(r) = guard(ty, "from_slice", || packed::TimeReader::from_slice(data))? else {
        return Ok(());
    };
    st.mark(ty);
    st.items.push("Time");
    generic(ty, &r)?;
    let t: u64 = r.timestamp().into();
    std::hint::black_box(t);
    Ok(())
}

fn alert_verifier() -> &'static ckb_network_alert::verifier::Verifier {
    static V: OnceLock<ckb_network_alert::verifier::Verifier> = OnceLock::new();
    V.get_or_init(|| {
        ckb_network_alert::verifier::Verifier::new(ckb_app_config::NetworkAlertConfig::default())
    })
}

fn walk_alert(data: &[u8], st: &mut MsgStats) -> Result<(), Violation> {
    let ty = "Alert";
    let Ok(r) = guard(ty, "from_slice", || packed::AlertReader::from_slice(data))? else {
        return Ok(());
    };
    st.mark(ty);
    st.items.push("Alert");
    generic(ty, &r)?;
    // AlertRelayer::received
    let utf8 = guard(ty, "utf8-checks", || {
        r.raw().message().is_utf8()
            && r.raw().min_version().to_opt().map(|x| x.is_utf8()).unwrap_or(true)
            && r.raw().max_version().to_opt().map(|x| x.is_utf8()).unwrap_or(true)
    })?;
    if !utf8 {
        st.notes.push("alert:not-utf8");
        return Ok(());
    }
    let alert = r.to_entity();
    guard(ty, "accessors", || {
        let id: u32 = alert.as_reader().raw().id().into();
        let cancel: u32 = alert.raw().cancel().into();
        let until: u64 = alert.raw().notice_until().into();
        std::hint::black_box((
            id,
            cancel,
            until,
            alert.calc_alert_hash(),
            alert.raw().calc_alert_hash(),
        ))
    })?;
    guard(ty, "verify_signatures", || {
        std::hint::black_box(alert_verifier().verify_signatures(&alert).is_ok())
    })?;
    guard(ty, "json", || {
        let j = ckb_jsonrpc_types::Alert::from(alert.clone());
        let m = ckb_jsonrpc_types::AlertMessage::from(alert.clone());
        let s = serde_json::to_string(&j).expect("json");
        let back: ckb_jsonrpc_types::Alert = serde_json::from_str(&s).expect("json back");
        let p: packed::Alert = back.into();
        std::hint::black_box((p.as_slice().len(), serde_json::to_string(&m).expect("json").len()))
    })?;
    Ok(())
}

fn multiaddr_probe(raw: &[u8]) {
    if let Ok(ma) = ckb_network::multiaddr::Multiaddr::try_from(raw.to_vec()) {
        std::hint::black_box((
            format!("{ma}").len(),
            ckb_network::extract_peer_id(&ma).is_some(),
            ckb_network::multiaddr_to_socketaddr(&ma).is_some(),
        ));
    }
}

fn walk_ping(data: &[u8], st: &mut MsgStats) -> Result<(), Violation> {
    let ty = "PingMessage";
    let Ok(r) = guard(ty, "from_compatible_slice", || {
        packed::PingMessageReader::from_compatible_slice(data)
    })?
    else {
        return Ok(());
    };
    st.mark(ty);
    st.items.push("PingMessage");
    generic(ty, &r)?;
    // network/src/protocols/ping.rs PingMessage::decode
    guard(ty, "decode", || match r.payload().to_enum() {
        packed::PingPayloadUnionReader::Ping(p) => {
            let mut b = [0u8; 4];
            b.copy_from_slice(p.nonce().raw_data());
            std::hint::black_box(u32::from_le_bytes(b));
        }
        packed::PingPayloadUnionReader::Pong(p) => {
            let mut b = [0u8; 4];
            b.copy_from_slice(p.nonce().raw_data());
            std::hint::black_box(u32::from_le_bytes(b));
        }
    })?;
    Ok(())
}

fn walk_discovery(data: &[u8], st: &mut MsgStats) -> Result<(), Violation> {
    let ty = "DiscoveryMessage";
    let Ok(r) = guard(ty, "from_compatible_slice", || {
        packed::DiscoveryMessageReader::from_compatible_slice(data)
    })?
    else {
        return Ok(());
    };
    st.mark(ty);
    generic(ty, &r)?;
    // network/src/protocols/discovery/protocol.rs DiscoveryMessage::decode, same accessors
    guard(ty, "decode", || match r.payload().to_enum() {
        packed::DiscoveryPayloadUnionReader::GetNodes(reader) => {
            st.items.push("DiscoveryMessage::GetNodes");
            let mut b = [0u8; 4];
            b.copy_from_slice(reader.version().raw_data());
            b.copy_from_slice(reader.count().raw_data());
            let port = reader.listen_port().to_opt().map(|p| {
                let mut b = [0u8; 2];
                b.copy_from_slice(p.raw_data());
                u16::from_le_bytes(b)
            });
            std::hint::black_box(port);
            if reader.has_extra_fields() {
                if let Ok(g2) = packed::GetNodes2::from_compatible_slice(reader.as_slice()) {
                    let f: u64 = g2.as_reader().required_flags().into();
                    std::hint::black_box(ckb_network::Flags::from_bits_truncate(f));
                }
            }
        }
        packed::DiscoveryPayloadUnionReader::Nodes(reader) => {
            st.items.push("DiscoveryMessage::Nodes");
            std::hint::black_box(reader.announce().as_slice()[0]);
            for node in reader.items().iter() {
                for a in node.addresses().iter() {
                    multiaddr_probe(a.raw_data());
                }
                if node.has_extra_fields() {
                    if let Ok(n2) = packed::Node2::from_compatible_slice(node.as_slice()) {
                        let f: u64 = n2.as_reader().flags().into();
                        std::hint::black_box(ckb_network::Flags::from_bits_truncate(f));
                    }
                }
            }
        }
    })?;
    Ok(())
}

fn walk_identify(data: &[u8], st: &mut MsgStats) -> Result<(), Violation> {
    let ty = "IdentifyMessage";
    if let Ok(r) = guard(ty, "from_compatible_slice", || {
        packed::IdentifyMessageReader::from_compatible_slice(data)
    })? {
        st.mark(ty);
        st.items.push("IdentifyMessage");
        generic(ty, &r)?;
        // network/src/protocols/identify/protocol.rs IdentifyMessage::decode
        guard(ty, "decode", || {
            multiaddr_probe(r.observed_addr().bytes().raw_data());
            for a in r.listen_addrs().iter() {
                multiaddr_probe(a.bytes().raw_data());
            }
        })?;
        // the custom payload is a `packed::Identify` (identify/mod.rs `verify`)
        let inner = r.identify().raw_data();
        walk_identify_payload(inner, st)?;
    }
    walk_identify_payload(data, st)
}

fn walk_identify_payload(data: &[u8], st: &mut MsgStats) -> Result<(), Violation> {
    let ty = "Identify";
    let Ok(r) = guard(ty, "from_slice", || packed::IdentifyReader::from_slice(data))? else {
        return Ok(());
    };
    st.mark(ty);
    st.items.push("Identify");
    generic(ty, &r)?;
    guard(ty, "verify", || {
        let name = r.name().as_utf8().ok().map(|s| s.to_owned());
        let flag: u64 = r.flag().into();
        let v = r.client_version().as_utf8().ok().map(|s| s.to_owned());
        std::hint::black_box((name, ckb_network::Flags::from_bits_truncate(flag), v))
    })?;
    Ok(())
}

fn walk_hole_punching(data: &[u8], st: &mut MsgStats) -> Result<(), Violation> {
    let ty = "HolePunchingMessage";
    let Ok(r) = guard(ty, "from_slice", || {
        packed::HolePunchingMessageReader::from_slice(data)
    })?
    else {
        return Ok(());
    };
    st.mark(ty);
    st.items.push("HolePunchingMessage");
    generic(ty, &r)?;
    use packed::HolePunchingMessageUnionReader as U;
    guard(ty, "accessors", || {
        let peer = |b: packed::BytesReader<'_>| {
            std::hint::black_box(ckb_network::PeerId::from_bytes(b.raw_data().to_vec()).is_ok());
        };
        match r.to_enum() {
            U::ConnectionRequest(c) => {
                peer(c.from());
                peer(c.to());
                let hops: u8 = c.max_hops().into();
                std::hint::black_box(hops);
                c.route().iter().for_each(peer);
                c.listen_addrs().iter().for_each(|a| multiaddr_probe(a.bytes().raw_data()));
            }
            U::ConnectionRequestDelivered(c) => {
                peer(c.from());
                peer(c.to());
                c.route().iter().for_each(peer);
                c.sync_route().iter().for_each(peer);
                c.listen_addrs().iter().for_each(|a| multiaddr_probe(a.bytes().raw_data()));
            }
            U::ConnectionSync(c) => {
                peer(c.from());
                peer(c.to());
                c.route().iter().for_each(peer);
            }
        }
    })?;
    Ok(())
}

/// Bundle layout: `[u32 LE len_a][a: RelayMessage/CompactBlock][u32 LE len_b][b: RelayMessage/
/// BlockTransactions][selector bytes]`.  Runs the relay pre-checks in the order of
/// `CompactBlockProcess` / `BlockTransactionsProcess`: the requested indexes are a subset (chosen
/// by the selector bytes) of the compact block's short-id positions / uncle positions, i.e. always
/// in range, as the node computes them itself.
pub fn split_bundle(data: &[u8]) -> Option<(&[u8], &[u8], &[u8])> {
    if data.len() < 8 {
        return None;
    }
    let la = u32::from_le_bytes(data[0..4].try_into().unwrap()) as usize;
    let rest = &data[4..];
    if la > rest.len().saturating_sub(4) {
        return None;
    }
    let (a, rest) = rest.split_at(la);
    let lb = u32::from_le_bytes(rest[0..4].try_into().unwrap()) as usize;
    let rest = &rest[4..];
    if lb > rest.len() {
        return None;
    }
    let (b, sel) = rest.split_at(lb);
    Some((a, b, sel))
}

pub fn make_bundle(a: &[u8], b: &[u8], sel: &[u8]) -> Vec<u8> {
    let mut v = Vec::with_capacity(8 + a.len() + b.len() + sel.len());
    v.extend_from_slice(&(a.len() as u32).to_le_bytes());
    v.extend_from_slice(a);
    v.extend_from_slice(&(b.len() as u32).to_le_bytes());
    v.extend_from_slice(b);
    v.extend_from_slice(sel);
    v
}

fn subset_by_selector(all: &[u32], sel: &[u8], off: usize) -> Vec<u32> {
    // selector byte 0xff (or no selector) = everything; otherwise bit k of the selector bytes
    if sel.len() <= off || sel[off] == 0xff {
        return all.to_vec();
    }
    all.iter()
        .enumerate()
        .filter(|(k, _)| {
            let byte = sel.get(off + 1 + k / 8).copied().unwrap_or(sel[off]);
            byte >> (k % 8) & 1 == 1
        })
        .map(|(_, v)| *v)
        .collect()
}

fn walk_bundle(data: &[u8], st: &mut MsgStats) -> Result<(), Violation> {
    let ty = "RelayBundle";
    let Some((a, b, sel)) = split_bundle(data) else {
        return Ok(());
    };
    let (Some(ma), Some(mb)) = (decode_relay(a), decode_relay(b)) else {
        return Ok(());
    };
    let (
        packed::RelayMessageUnionReader::CompactBlock(cr),
        packed::RelayMessageUnionReader::BlockTransactions(br),
    ) = (ma.to_enum(), mb.to_enum())
    else {
        return Ok(());
    };
    st.mark(ty);
    st.items.push("RelayBundle");
    let cb = cr.to_entity();
    // CompactBlockProcess: non_contextual_check limits, then CompactBlockVerifier
    if cb.uncles().len() > consensus().max_uncles_num()
        || cb.proposals().len() as u64 > consensus().max_block_proposals_limit()
    {
        st.notes.push("bundle:compact-over-limits");
        return Ok(());
    }
    let ok = guard(ty, "compact-block-verifier", || {
        ckb_sync::verif::compact_block_verify(&cb).is_ok()
    })?;
    if !ok {
        st.notes.push("bundle:compact-rejected");
        return Ok(());
    }
    // BlockTransactionsProcess: check_data gate, views, the two verifiers
    if !guard(ty, "block-transactions.check_data", || br.check_data())? {
        st.notes.push("bundle:block-transactions-check_data-false");
        return Ok(());
    }
    let bt = br.to_entity();
    let txs: Vec<core::TransactionView> = guard(ty, "block-transactions.tx-views", || {
        bt.transactions().into_iter().map(|t| t.into_view()).collect()
    })?;
    let uncles: Vec<core::UncleBlockView> = guard(ty, "block-transactions.uncle-views", || {
        bt.uncles().into_iter().map(|u| u.into_view()).collect()
    })?;
    let all_tx_idx: Vec<u32> = cb.short_id_indexes().into_iter().map(|i| i as u32).collect();
    let all_uncle_idx: Vec<u32> = (0..cb.uncles().len() as u32).collect();
    let tx_idx = subset_by_selector(&all_tx_idx, sel, 0);
    let uncle_idx = subset_by_selector(&all_uncle_idx, sel, 1 + all_tx_idx.len().div_ceil(8));
    st.mark("RelayBundle:verifiers-reached");
    let tx_ok = guard(ty, "block-transactions-verifier", || {
        ckb_sync::verif::block_transactions_verify(&cb, &tx_idx, &txs).is_ok()
    })?;
    st.notes.push(if tx_ok {
        "bundle:txs-verifier-ok"
    } else {
        "bundle:txs-verifier-rejects"
    });
    if tx_ok {
        let u_ok = guard(ty, "block-uncles-verifier", || {
            ckb_sync::verif::block_uncles_verify(&cb, &uncle_idx, &uncles).is_ok()
        })?;
        st.notes.push(if u_ok {
            "bundle:uncles-verifier-ok"
        } else {
            "bundle:uncles-verifier-rejects"
        });
        if u_ok && uncle_idx.len() != uncles.len() {
            // not an oracle clause here (the panic it leads to is observed by the
            // reconstruction sub-property on the real Relayer); counted only
            st.notes.push("bundle:uncles-verifier-ok-with-length-mismatch");
        }
    }
    Ok(())
}

pub fn target_message(data: &[u8]) -> Result<MsgStats, Violation> {
    let mut st = MsgStats::default();
    walk_sync(data, &mut st)?;
    walk_relay(data, &mut st)?;
    walk_light_client(data, &mut st)?;
    walk_filter(data, &mut st)?;
    walk_time(data, &mut st)?;
    walk_alert(data, &mut st)?;
    walk_ping(data, &mut st)?;
    walk_discovery(data, &mut st)?;
    walk_identify(data, &mut st)?;
    walk_hole_punching(data, &mut st)?;
    walk_bundle(data, &mut st)?;
    Ok(st)
}
