#![no_main]
//! libFuzzer target `frame`: the same function the proptest driver calls.
use libfuzzer_sys::fuzz_target;

fuzz_target!(|data: &[u8]| {
    vcheck::c16_fuzz::run_target("frame", data);
});
