#!/bin/bash
# build.sh <repo-dir>: generate harness/Cargo.toml for that repository path and build vcheck.
# For a repository other than /repo (mutation probes on scratch copies) the harness sources are
# copied next to the scratch target dir so that the shared manifest is never rewritten.
set -eu
HERE="$(cd "$(dirname "${BASH_SOURCE[0]}")" && pwd)"
REPO="${1:-/repo}"
export CARGO_NET_OFFLINE=true
export CARGO_TARGET_DIR="${CARGO_TARGET_DIR:-$HERE/target}"
mkdir -p "$CARGO_TARGET_DIR"
SRC="$HERE/harness"
if [ "$REPO" != "/repo" ]; then
  SRC="$CARGO_TARGET_DIR/harness-src"
  mkdir -p "$SRC"
  rsync -a --delete --exclude target --exclude Cargo.toml "$HERE/harness/" "$SRC/"
fi
cd "$SRC"
sed "s#@REPO@#$REPO#g" Cargo.toml.in > Cargo.toml.new
if ! cmp -s Cargo.toml.new Cargo.toml 2>/dev/null; then mv Cargo.toml.new Cargo.toml; else rm Cargo.toml.new; fi
# the lockfile starts as a copy of the repository's and is extended offline by cargo
if [ ! -f Cargo.lock ]; then cp "$REPO/Cargo.lock" Cargo.lock; fi
(
  flock 9
  cargo build --offline --profile vcheck --bin vcheck 2>&1 | tail -n 40
  exit "${PIPESTATUS[0]}"
) 9>"$CARGO_TARGET_DIR/.verif-build.lock"
