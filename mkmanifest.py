#!/usr/bin/env python3
"""Regenerates MANIFEST.json from the table below (kept in one place so it is always valid)."""
import json, subprocess
props = [json.loads(l) for l in open('/verif/properties.jsonl')]
ids = [p['id'] for p in props]

CHECKS = {
 'C09': dict(level='fault_enumeration', ref='DESIGN.md §2 C09',
   technique='property-based testing (proptest operation histories) with enumerated crash states against a Vec<Vec<u8>> reference model',
   text='Generated append/truncate/retrieve/sync/reopen histories over FreezerFiles with tiny file-size limits; for every history the crash states of the un-synced tail (head data file x index cut independently to every length, missing/empty head file) are enumerated (exhaustively when the product is small), each re-opened and compared item by item with a Vec model, then used further and re-opened again. Fault enumeration is the right level because the crash-state space per history is finite and small while the history space is sampled.',
   note='Crash model is the statement\'s: byte-prefix cuts of the two files written since the last sync; no torn sectors. tmpfs scratch directory (fsync is a no-op there).'),
}
NOT_YET = 'check not built yet in this round (see DESIGN.md §5 build order); no claim is made'

def commits():
    try:
        out = subprocess.check_output(['git','-C','/repo','log','--format=%h %s','44decd7..HEAD'], text=True)
    except Exception:
        return []
    return [l.split()[0] for l in out.splitlines() if l.split(' ',1)[1].startswith('verif-hooks:')]

m = {
 'version': 1,
 'setup_cmd': './setup.sh',
 'hooks': {
   'guard': 'verif-hooks',
   'enable': 'cargo feature `verif-hooks` of the repository crates that carry a hook, switched on from the dependency lines of /verif/harness/Cargo.toml.in (the repository workspace never enables it)',
   'baseline_off_cmd': 'cd /repo && cargo nextest run --workspace --no-fail-fast --test-threads 8 --offline || cargo test --workspace --no-fail-fast --offline',
   'source_commits': commits(),
   'add_only': True,
 },
 'engines': [
   {'name':'vcheck','path':'harness','serves_properties':[i for i in ids if i in CHECKS],
    'kind_free_text':'Rust harness: proptest TestRunner with fixed seeds in worker processes, reference models and differential oracles, replay files, known-findings matcher'},
 ],
 'checks': [],
 'not_applicable': [],
 'notes': 'exit codes: 0 held, 1 VIOLATION line, 2 inconclusive (build failure, watchdog, crashed worker). VERIF_SEED selects the proptest seeds; VERIF_REPO_DIR/VERIF_TARGET_DIR run the same checks against a scratch copy (mutation probes).',
}
for i in ids:
    if i in CHECKS:
        c = CHECKS[i]
        m['checks'].append({
          'property_id': i,
          'quick_cmd': f'./check {i} quick',
          'thorough_cmd': f'./check {i} thorough',
          'evidence_file': f'evidence/{i}.json',
          'replay_cmd_template': f'./check {i} --replay {{path}}',
          'engine': 'vcheck',
          'level_claimed': {'category': c['level'], 'text': c['text'], 'design_ref': c['ref']},
          'level_note': c['note'],
          'technique': c['technique'],
        })
    else:
        m['not_applicable'].append({'property_id': i, 'reason': NOT_YET})
json.dump(m, open('/verif/MANIFEST.json','w'), indent=1)
print('checks:', [c['property_id'] for c in m['checks']])
