#!/usr/bin/env python3
"""Regenerates MANIFEST.json from the table below (kept in one place so it is always valid)."""
import json, subprocess
props = [json.loads(l) for l in open('/verif/properties.jsonl')]
ids = [p['id'] for p in props]

CHECKS = {
 'C01': dict(level='exploration', ref='DESIGN.md §2 C01',
   technique='property-based testing: generated block trees x arrival schedules on real nodes, reference-model oracle (heaviest valid chain, monotone tip, orphan accounting), permutation metamorphism, node-thread panic recorder',
   text='Random block trees (forks, epoch-boundary difficulty changes, uncles, commits, contextually/structurally invalid blocks) are built by an independent reference model and delivered to fresh real nodes under generated arrival orders (out-of-order, duplicates, sync submit pipeline or async bursts); after every burst a FIFO barrier and the oracle; a retention-horizon family (2-block epochs, expired-orphan clean-up forced before every request) checks that orphans within 6 epochs are kept and connected, that older ones may go, and that forgotten blocks are accepted again. Exploration is the right level: the quantifier (trees x permutations x interleavings) is unbounded and only sampled; thread interleavings are not owned by the harness.',
   note='Trusts the reference model (validated by the unchanged node accepting every model-built block) and ckb-types data structures/hashing (C15). Header-level checks for async deliveries are assumed done by the sender as in the real node.'),
 'C02': dict(level='exploration', ref='DESIGN.md §2 C02',
   technique='property-based testing: transaction-dense block trees on real nodes; oracle = full column scans vs reference-model replay of the main chain (both directions), reader-sampled snapshots, and a linear-replay twin node compared byte for byte',
   text='At every quiescent point of generated reorg histories the node\'s live-cell, cell-data, tx-location, number<->hash and included-uncle columns are scanned completely and compared with the reference model\'s replay of the main chain, together with tip, epoch, per-block epoch/ext records and the chain root; snapshots sampled concurrently by a reader thread get the same comparison; at the end a second node that only ever saw the final main chain must hold byte-identical columns, block exts and persisted tip / current-epoch records; half of the histories end with a restart whose first snapshot is checked the same way.',
   note='Snapshot instants are sampled, not enumerated. The replay definition is the reference model (validated by the node accepting its blocks).'),
 'C03': dict(level='exploration', ref='DESIGN.md §2 C03',
   technique='property-based testing with a mutation-operator catalogue: boundary-valid candidates and single-rule violations (all other commitments re-sealed by the reference model) through the miner submit pipeline of a real node; verdict oracle + whole-attempt refusal (full state scan unchanged, descendants refused)',
   text='A generated valid history brings a real node to a context; then candidates are built on the tip or on a side branch: boundary-valid ones (must be attached) and 63 single-rule mutations (must be refused, state unchanged by full column scan, block remembered invalid, descendants refused even when they make the branch heaviest). Because the reference model recomputes reward, DAO, roots and chain root for the mutated body, exactly the targeted rule is broken, so a dropped check in the node shows up as an accepted candidate.',
   note='Dummy PoW; size/cycle limits at the exact boundary are not generated. The catalogue is finite: rules without an operator are not exercised.'),
 'C04': dict(level='exploration', ref='DESIGN.md §2 C04',
   technique='model-based property-based testing: an independent admissibility model (liveness incl. in-block / pooled ancestors, deps and dep groups, header deps, capacity, since and maturity with exact epoch arithmetic, script outcome) decides generated transactions; the real node decides them in probe blocks, in the committed block and through the pool (dry run and submit) on two nodes that reached the same chain by different histories',
   text='Forked histories bring two real nodes (one reorged onto the main chain, one fed it linearly) to generated positions (epoch heads / tails, window offsets); 20-34 candidate transactions per case are built around every boundary (since number / epoch fraction / median time exact and one short and at the extremes of the 56-bit field, maturity exact and one block short, occupied and summed capacity exact and one over, dep-group expansion 2048 / 2049, dep group hiding an input, same-block parents and double spends, unknown / side-chain header deps, failing and missing scripts). Each model-rejected candidate goes alone into a probe block that must be refused for that transaction with the tip unmoved, all model-accepted ones into the block both nodes must accept; every live candidate also goes through test_accept_tx (and some through submit_local_tx) at every tip; verdict, cycles and fee must agree between the two nodes.',
   note='Script outcomes are always_success / always_failure / missing code cell (C05 covers the VM); the cycle-limit boundary is not generated; pool policy rejections (fee rate, duplicates, RBF rules 2-5) are counted, not judged. Two tx-pool defects are known findings.'),
 'C05': dict(level='exploration', ref='DESIGN.md §2 C05',
   technique='metamorphic property-based testing: one-shot script run vs chunked / resumed / signalled runs over generated RV64 programs and repository test binaries, exhaustive split-point sweeps for small programs',
   text='Programs (repository spawn/exec/load binaries driven by generated data, plus generated C programs compiled to RV64 at check time) are run once with an unlimited budget and then under generated chunk schedules, state resumes, complete() and pause/resume/stop signals and budgets around the exact cost; verdict and cycles must agree. Small programs get every split point (and every pair for tiny ones); a family loads programmes from non-zero offsets (page provenance after suspend / rebuild).',
   note='Signal timing is real time (tokio); the oracle is timing-independent. Five genuine defects are tolerated as known findings so the search continues behind them.'),
 'C06': dict(level='exploration', ref='DESIGN.md §2 C06',
   technique='property-based testing: the reference model computes every reward and DAO field independently and the real node must accept them; forward fee ledger, conservation invariant, +-1 mutants, exact-arithmetic differential for DAO withdraw',
   text='Generated histories with random fees, proposals in blocks and uncles, re-proposals, every commit offset, short epochs with remainders and halving, and NervosDAO deposit / withdraw transactions are built block by block with the model\'s own reward and DAO values (RFC formulas re-implemented in the harness, no repository calculator involved); the node must accept each block and reject every +-1 mutant. A forward ledger (each fee split once between its committer and the earliest proposer in the commit block\'s window) must equal each cellbase, U must equal the recomputed occupied capacity of the live set, and C - S - live - pending stays constant.',
   note='The DAO script\'s own rules (180-epoch lock) are not exercised: the DAO slot holds always_success so that withdrawals fit short histories; node-level accounting is unchanged by that. One consensus-critical deviation (proposer share of target block 1) is a known finding.'),
 'C07': dict(level='exploration', ref='DESIGN.md §2 C07',
   technique='property-based testing against an exact big-integer model of the RFC 0020 formulas; exhaustive enumeration of compact exponents x sampled mantissas',
   text='Pure arithmetic inputs (epoch statistics incl. degenerate ones, compact encodings, remainders) are evaluated by the code and by an exact arbitrary-precision model written in the harness; bounds, formulas, bookkeeping, issuance sums, compact/difficulty consistency, PoW acceptance and epoch-successor logic are compared.',
   note='Exact agreement is demanded only where the RFC intermediates fit the 256-bit arithmetic the code documents; beyond that only no-panic/bounds (labelled extreme-domain).'),
 'C08': dict(level='fault_enumeration', ref='DESIGN.md §2 C08',
   technique='property-based testing of block-import histories with enumerated crash points: every database commit x {before, after} injected as process abort in child processes, recovery compared with the reference model and with the never-crashed run',
   text='Generated histories (reorgs, invalid blocks, orphan deliveries) run on a persistent directory in a child process; a dry run logs the commits, then the history is re-run with an abort injected at each commit point (all of them when the history is small, all before-points plus a window of after-points otherwise), some recoveries are crashed again; a recovery child reopens the directory, waits for the start-up rescan, and its raw columns are compared with the model replay of the recovered tip; stored-but-unverified blocks must be picked up without re-delivery; after the remaining blocks are delivered the state must equal the never-crashed run.',
   note='Crash model is process death at a commit boundary (everything written reached the OS); torn writes are RocksDB\'s contract. Which commit carries an index inside an asynchronous burst follows the OS scheduler; the verdict uses the state found at reopen.'),
 'C09': dict(level='fault_enumeration', ref='DESIGN.md §2 C09',
   technique='property-based testing (proptest operation histories) with enumerated crash states against a Vec<Vec<u8>> reference model',
   text='Generated append/truncate/retrieve/sync/reopen histories over FreezerFiles with tiny file-size limits; for every history the crash states of the un-synced tail (head data file x index cut independently to every length, missing/empty head file) are enumerated (exhaustively when the product is small), each re-opened and compared item by item with a Vec model, then used further and re-opened again. Fault enumeration is the right level because the crash-state space per history is finite and small while the history space is sampled.',
   note='Crash model is the statement\'s: byte-prefix cuts of the two files written since the last sync; no torn sectors. tmpfs scratch directory (fsync is a no-op there).'),
 'C10': dict(level='fault_enumeration', ref='DESIGN.md §2 C10',
   technique='property-based testing of chains with freeze passes at generated points: query battery before/after/restart against the reference model, what-moved invariants over raw rows, and enumerated crash points inside the freeze pass (commit hook + freezer fail-points) in child processes',
   text='Chains of several short epochs with forks at heights that become frozen are imported into a node with the freezer; synchronous freeze passes run at generated points (twice in a row, right after a reorg); every main-chain block is queried through every getter (block, packed block, header, body, tx hashes, cellbase, uncles, proposals, extension, transactions with location, ancestors, cells, the data-loader view scripts see) before, between and after passes and after a restart and compared with the model; raw rows are diffed to check what moved; freeze passes are re-run in child processes with an abort at every commit / file-append point and the directory must reopen with no main-chain block lost.',
   note='Readers concurrent with a pass and reorgs through frozen heights are not generated; MAX_FREEZE_LIMIT is never binding at these sizes.'),
 'C11': dict(level='exploration', ref='DESIGN.md §2 C11',
   technique='stateful property-based testing on a real node with a tiny pool: generated histories of submissions, directed RBF replacements, removals, expiry, evictions, blocks and reorgs; after every operation a read-only dump of the pool (hook) is checked clause by clause by recomputation (conflict freedom, links <=> spends/deps, eight aggregates, index keys and orders, counters, ancestor limit, RBF fee rule)',
   text='A real node with small pool limits (size 2-60 kB, ancestors 3-8, RBF on/off, expiry under a fake clock, three proposal windows, with/without block assembler) is driven by ~40 generated operations (chains, diamonds, shared cell deps, header deps, double spends; RBF at threshold -1/0/+1 over seven replacement shapes; remove_local_tx; clock jumps; blocks proposing/committing subsets and conflicting transactions; reorgs of depth 1-3; plug_entry; clear). After every operation the whole pool is dumped through the verif hook and every clause of the statement is recomputed from the entries alone and compared with what the pool stores and reports.',
   note='The verify-queue workers are suspended between operations (deterministic replay); cycles vary only through script-group counts and plug_entry. Six root causes in the pool bookkeeping are known findings (tolerated by trigger so the search continues behind them).'),
 'C12': dict(level='exploration', ref='DESIGN.md §2 C12',
   technique='stateful property-based testing on a real node (mine mode and not): generated submissions, extensions and competing branches of every depth up to w_far+2 built by the reference model; after every tip change the pool (dump hook + public API) is judged against the model of the new main chain clause by clause, including completeness of re-admission and stage vs proposal window',
   text='Generated operation lists submit transactions (fee classes around the pool minimum, header deps, shared cell deps, spends of pooled outputs), extend the tip with blocks proposing/committing generated subsets, and deliver competing branches from 1..w_far+2 blocks below the tip that commit other subsets, conflicting transactions or nothing, optionally while a second thread submits. After every tip change, once the pool reports the new tip: no pooled transaction is committed on the new chain, has a dead/unknown input or dep w.r.t. chain + pool, or depends on a detached header; every transaction committed only on the abandoned branch that is still admissible (resolvable, conflict-free, above the minimum fee) is back; in mine mode each entry stage equals the window position of its id.',
   note='Pool limits other than the fee rate and (in half of the cases) max_tx_verify_cycles are never binding; no uncles; concurrent submission interleavings are sampled. Two genuine defects and three consequences of a C11 root cause are known findings.'),
 'C13': dict(level='exploration', ref='DESIGN.md §2 C13',
   technique='stateful property-based testing on a mine-mode node: templates are sealed and submitted to the same node (must be accepted) and rebuilt bit-for-bit by the reference model from their free fields',
   text='A generated sequence of pool submissions (chains, diamonds), template requests, mined templates, competing side blocks (uncles, reorgs) and clock advances drives a real node with a block assembler; every template on the current tip is converted the way a miner does and (a) submitted to the node\'s own pipeline, (b) rebuilt by the reference model from its timestamp, uncles, proposals, transactions and cellbase witness: the two blocks must be identical, which pins epoch, target, DAO field, reward amount and lock, chain-root extension and all roots; committed transactions must be committable in the window, parents first, conflict free; half of the spec variants use tight consensus limits (size, cycles, proposals) so that the limits bind.',
   note='update_interval_millis = 0 (the assembler handles notifications in order); the per-request RPC limits are counted, not judged (the statement speaks of consensus limits). Candidate finding "template older than median time" was analysed and dismissed (with an odd median window at most 18 of 37 timestamps can exceed the tip\'s).'),
 'C14': dict(level='exploration', ref='DESIGN.md §2 C14',
   technique='differential property-based testing: identical operation sequences on a node with warm caches and on a node with every cache disabled, verdicts / block exts / query answers compared with each other and with the reference model',
   text='Two real nodes receive the same generated sequence of block imports (side branches, invalid blocks that get deleted, reorgs), pool submissions later committed (same tx hash with different witnesses, since/maturity verdicts that differ between pool and commit position, DAO withdrawals) and queries for known, deleted and not-yet-known hashes; one runs with default or tiny caches, the reference with cache capacity 0 (store caches and the tx-verification cache). Every verdict, BlockExt (fees, cycles, sizes), reported cycles/fee and query answer must be identical, and equal to the model where the model knows it. A second family imports the first k blocks inside an assume-valid window (scripts skipped) on both nodes and the rest in full: verdicts and recorded cycles must still agree.',
   note='Operations are sequential with quiescence in between (cache effects needing two blocks in flight are C01\'s). The VM-version-change reuse of cached script results (only reachable on specs that schedule the ckb2023 fork in the future) is a known finding.'),
 'C15': dict(level='exploration', ref='DESIGN.md §2 C15',
   technique='schema-driven property-based testing: independent molecule interpreter (generator + strict/compatible verifier) vs generated code, JSON round trips, hash-commitment mutation relations',
   text='A parser/interpreter of the repository .mol schemas written in the harness generates values and canonical bytes for all 127 types and decides canonicity of arbitrary/mutated bytes; the generated Rust types must agree. JSON conversions round-trip, and hash commitments are checked by single-field mutations against hashes recomputed from the documented definitions.',
   note='blake2b and the merkle definition are recomputed in the harness; value sizes are bounded (tens of kB).'),
 'C16': dict(level='exploration', ref='DESIGN.md §2 C16',
   technique='fuzzing (libFuzzer in the thorough tier) and structure-aware property-based testing of frame/message decoding with panic and bound oracles; model-based testing of compact-block reconstruction on a real node',
   text='Random bytes and structure-aware mutations of valid protocol messages go through decompression, decoding, every accessor/conversion/hash and the context-free verifiers under catch_unwind with size-bound checks; compact-block reconstruction is driven on a real node with generated pools, prefilled sets, twins and replies and compared with a model (exact block, exact missing report, or collision/error); whole relay sessions of model-built valid blocks run through the real protocol handler end to end (the committed block must arrive byte for byte, honest peers are never banned, liars never poison the block).',
   note='The relay-session sub-check drives the real Relayer through CKBProtocolHandler::received with a recording CKBProtocolContext (honest and lying peers, availability changes between rounds); the older reconstruction sub-check mirrors the handlers call by call. The quick tier is proptest only; the libFuzzer campaign needs a nightly cold build and runs in the thorough tier. One relay defect is a known finding.'),
 'C17': dict(level='exploration', ref='DESIGN.md §2 C17',
   technique='model-based property testing with bounded-exhaustive operation sequences (orphan pool, in-flight table, header map) and random sequences beyond; skip-list ancestors vs naive parent walk',
   text='Each structure is driven by generated and exhaustively enumerated short operation sequences against a simple mathematical model (set of (hash,parent), per-peer map, HashMap, parent-pointer walk), compared after every operation; locator/ancestor queries also on a real node.',
   note='Exhaustive parts cover sequences up to length 6 over 4 hashes / 2 peers; spills are placed between operations as the statement says (concurrent spills are outside the quantifier).'),
 'C18': dict(level='exploration', ref='DESIGN.md §2 C18',
   technique='model-based property testing: append/rollback walks with reorgs on the real RocksDB indexer and on the real rich-indexer (sqlite), each also behind the real sync loop on a node, vs a brute-force filter over the reference chain; rollback-inverse metamorphic relation on answers and raw rows / table dumps',
   text='Generated chain walks with reorgs over a script universe built to collide (shared code hashes, args that are prefixes of one another, empty and zero args) drive the real indexer; after every append and rollback the indexer tip and a battery of get_cells / get_transactions / get_cells_capacity queries (all filters, both orders, page sizes 1..5 with cursor chaining) are compared with a brute-force filter over the model; append followed by rollback must restore every answer and the query-visible raw rows. The same walks, queries (plus the partial search mode) and rollback inverse (answers and a dump of every sqlite table) run against the rich-indexer, directly and behind the real sync loop of a node whose chain reorgs.',
   note='The rich-indexer runs on sqlite only (no Postgres server in the sandbox: its LIKE path is not exercised); tx-pool overlay and rhai filters are not driven. One genuine defect of the RocksDB indexer (prefix search false positive caused by the key layout) is tolerated as a known finding by exactly its predicate; two rich-indexer defects were repaired.'),
 'C19': dict(level='exploration', ref='DESIGN.md §2 C19',
   technique='property-based testing on real nodes with an independent MMR implementation and an independent GCS filter decoder: committed roots, served roots and proofs, filter contents and filter-hash chain compared after every reorg',
   text='Every block is built with the reference model\'s own chain-root (independent MMR), so acceptance is the first oracle and a flipped root must be rejected; after every quiescent point the node\'s chain_root_mmr(k) root and generated membership proofs are compared with the model (also after reorgs to a shorter but heavier chain and regrowth past the old length), proofs must fail against the abandoned branch and with a wrong leaf; with the block-filter service running (started at generated points, reorgs while it lags) every main-chain filter is decoded and must match the lock/type hashes of all outputs and spent inputs, and filter hashes must chain from genesis.',
   note='The light-client protocol handlers themselves are not driven (they need a protocol context); the store/snapshot API they wrap is. One timing-dependent defect of the filter builder is a known finding.'),
 'C20': dict(level='exploration', ref='DESIGN.md §2 C20',
   technique='model-based property testing in lock step on a persistent real node: proposal view vs reference window sets after extensions, reorgs of every depth class, truncates and restarts; accept/reject probes against the verifier',
   text='Operation lists (plan steps with proposals in blocks and uncles, reorgs targeted at depths around w_close and w_far, truncate, restart of the node on the same directory) run on the model and a real node; at every tip snapshot.proposals().set()/gap() must equal the model\'s window sets, the restarted node\'s rebuilt view must equal the incremental one, blocks committing an id in the set are accepted and ids in the gap / outside are rejected, and pooled entries must not stay Proposed after their id left the window.',
   note='Ids dropped although still in the window cannot be observed without a pool hook (the pool re-promotes them); the observable direction is checked.'),
}
NOT_YET = 'check not built yet in this round (see DESIGN.md §5 build order); no claim is made'

def commits():
    try:
        out = subprocess.check_output(['git','-C','/repo','log','--format=%h %s','44decd7..HEAD'], text=True)
    except Exception:
        return []
    return [l.split()[0] for l in out.splitlines() if l.split(' ',1)[1].startswith('verif-hooks:')]

m = {
 'version': 1,
 'setup_cmd': './setup.sh',
 'hooks': {
   'guard': 'verif-hooks',
   'enable': 'cargo feature `verif-hooks` of the repository crates that carry a hook, switched on from the dependency lines of /verif/harness/Cargo.toml.in (the repository workspace never enables it)',
   'baseline_off_cmd': 'cd /repo && cargo nextest run --workspace --no-fail-fast --test-threads 8 --offline || cargo test --workspace --no-fail-fast --offline',
   'source_commits': commits(),
   'add_only': True,
 },
 'engines': [
   {'name':'vcheck','path':'harness','serves_properties':[i for i in ids if i in CHECKS],
    'kind_free_text':'Rust harness: proptest TestRunner with fixed seeds in worker processes, reference models and differential oracles, replay files, known-findings matcher'},
 ],
 'checks': [],
 'not_applicable': [],
 'notes': 'exit codes: 0 held, 1 VIOLATION line, 2 inconclusive (build failure, watchdog, crashed worker). VERIF_SEED selects the proptest seeds; VERIF_REPO_DIR/VERIF_TARGET_DIR run the same checks against a scratch copy (mutation probes).',
}
for i in ids:
    if i in CHECKS:
        c = CHECKS[i]
        m['checks'].append({
          'property_id': i,
          'quick_cmd': f'./check {i} quick',
          'thorough_cmd': f'./check {i} thorough',
          'evidence_file': f'evidence/{i}.json',
          'replay_cmd_template': f'./check {i} --replay {{path}}',
          'engine': 'vcheck',
          'level_claimed': {'category': c['level'], 'text': c['text'], 'design_ref': c['ref']},
          'level_note': c['note'],
          'technique': c['technique'],
        })
    else:
        m['not_applicable'].append({'property_id': i, 'reason': NOT_YET})
json.dump(m, open('/verif/MANIFEST.json','w'), indent=1)
print('checks:', [c['property_id'] for c in m['checks']])
